(* Model of the production connection handler
     src/production/connection_optimized.rs   OptimizedConnectionHandler::{run, try_execute_command,
        collect_get_keys, collect_set_pairs, try_fast_path, try_fast_get, try_fast_set,
        encode_error_into, resp_values_equal} and the connection-level MULTI/EXEC/WATCH state machine
   as the code stands after the repairs recorded in known_findings.jsonl (keys C04-...): header length 13,
   collectors that do not consume unless the batch runs, checked arithmetic and RespCodec-compatible
   length lines in the recognisers, UTF-8-only fast path, CR/LF-free error lines, no panic on a blank
   command name.  Definitions only.  The RESP decoder is Model/Resp.v ([parse true] = RespCodec::parse).

   The model is GENERIC in the backend (Section variables, discharged at End):
     St, exec            ShardedActorState and ShardedActorState::execute
     fast_get, fast_set  pooled_fast_get / pooled_fast_set
     batch_get/batch_set fast_batch_get_pipeline / fast_batch_set_pipeline
     cmd, decode_cmd     Command and Command::from_resp_zero_copy (Ok cmd | Err text)
     kind                the shape of a command the connection state machine looks at
     stub_reply          handle_stub_command
     utf8_ok             std::str::from_utf8(key).is_ok()
   Model/MiniExec.v instantiates all of them for the correspondence check.

   Not modelled: ACL users other than the permissive default (AUTH / ACL commands, restricted key
   patterns: the fast path is then disabled), metrics, tracing, TLS, read_buffer_size (any split of the
   stream into reads is covered by quantifying over the list of reads). *)
From Coq Require Import String Ascii NArith ZArith List Bool.
From RV Require Import Lib.Hex Model.Resp.
Import ListNotations.

(* text literals as bytes *)
Definition str (s : string) : bytes := map N_of_ascii (list_ascii_of_string s).

(* ------------------------------------------------------------------ the GET / SET recognisers *)

Definition GET_U : bytes := [42; 50; 13; 10; 36; 51; 13; 10; 71; 69; 84; 13; 10]%N.     (* "*2\r\n$3\r\nGET\r\n" *)
Definition GET_L : bytes := [42; 50; 13; 10; 36; 51; 13; 10; 103; 101; 116; 13; 10]%N.  (* "*2\r\n$3\r\nget\r\n" *)
Definition SET_U : bytes := [42; 51; 13; 10; 36; 51; 13; 10; 83; 69; 84; 13; 10]%N.     (* "*3\r\n$3\r\nSET\r\n" *)
Definition SET_L : bytes := [42; 51; 13; 10; 36; 51; 13; 10; 115; 101; 116; 13; 10]%N.  (* "*3\r\n$3\r\nset\r\n" *)
Definition HEADER_LEN : nat := 13.
(* the command names inside these headers *)
Definition NAME_GET_U : bytes := [71; 69; 84]%N.
Definition NAME_GET_L : bytes := [103; 101; 116]%N.
Definition NAME_SET_U : bytes := [83; 69; 84]%N.
Definition NAME_SET_L : bytes := [115; 101; 116]%N.
Definition is_get_name (nm : bytes) : Prop := nm = NAME_GET_U \/ nm = NAME_GET_L.
Definition is_set_name (nm : bytes) : Prop := nm = NAME_SET_U \/ nm = NAME_SET_L.

(* buf.starts_with(p) *)
Definition starts_with (p b : bytes) : bool := bytes_eqb (firstn (length p) b) p.

(* memchr::memchr(c, b) *)
Fixpoint memchr (c : N) (b : bytes) : option nat :=
  match b with
  | [] => None
  | x :: t => if (x =? c)%N then Some O else match memchr c t with Some p => Some (S p) | None => None end
  end.

(* parse_usize_fast (default features): from_utf8 then str::parse::<usize>: an optional '+', one or
   more ASCII digits, value below 2^64 *)
Definition USIZE_LIM_N : N := 18446744073709551616.
Definition parse_usize (s : bytes) : option N :=
  match s with
  | [] => None
  | c :: t =>
    let ds := if (c =? 43)%N then t else s in
    match ds with
    | [] => None
    | _ :: _ =>
      match digits_val ds 0 with
      | Some n => if (n <? USIZE_LIM_N)%N then Some n else None
      | None => None
      end
    end
  end.
(* parse_bulk_len_fast: additionally at most i64::MAX *)
Definition parse_bulk_len_fast (s : bytes) : option N :=
  match parse_usize s with
  | Some n => if (n <? I64_LIM)%N then Some n else None
  | None => None
  end.

(* One "$<len>\r\n<payload>\r\n" as the four recognisers read it.  [a] is the slice that should
   start with '$' (after_header = &buf[HEADER_LEN..], resp. &buf[val_len_start..]); [base] is the
   offset of [a] in buf (it only matters for the checked additions).  Arm by arm:
     a empty                         buf.len() < HEADER_LEN + 1 / buf.len() <= val_len_start   -> need
     a[0] != '$'                                                                               -> not
     memchr('\r', &a[1..]) = None                                                              -> need
     byte after the CR: missing -> need; not LF -> not
     parse_bulk_len_fast(&a[1..len_end]) = None                                                -> not
     checked_add overflow                                                                      -> not
     buf.len() < total_needed                                                                  -> need
   (try_fast_set / collect_set_pairs test `buf.len() <= val_len_start` for the key, i.e. one byte more
   than [length a < start + n + 2]; the byte in question is the first of the next bulk, whose absence
   makes the next scan answer "need": same outcome.) *)
Inductive scan :=
| SOk (payload : bytes) (used : nat)
| SNeed
| SNot.

Definition scan_bulk (base : nat) (a : bytes) : scan :=
  match a with
  | [] => SNeed
  | c :: t =>
    if negb (c =? 36)%N then SNot
    else
      match memchr 13 t with
      | None => SNeed
      | Some p =>
        match nth_error t (S p) with
        | None => SNeed
        | Some lf =>
          if negb (lf =? 10)%N then SNot
          else
            match parse_bulk_len_fast (firstn p t) with
            | None => SNot
            | Some n =>
              let start := (p + 3)%nat in
              if (USIZE_LIM_N <=? N.of_nat (base + start) + n + 2)%N then SNot
              else if (N.of_nat (length a) <? N.of_nat start + n + 2)%N then SNeed
              else SOk (firstn (N.to_nat n) (skipn start a)) (start + N.to_nat n + 2)
            end
        end
      end
  end.

Inductive fres :=
| FGet (key : bytes) (n : nat)
| FSet (key val : bytes) (n : nat)
| FNeed
| FNot.

Definition is_get_hdr (b : bytes) : bool := starts_with GET_U b || starts_with GET_L b.
Definition is_set_hdr (b : bytes) : bool := starts_with SET_U b || starts_with SET_L b.

Section Handler.
  Variable utf8_ok : bytes -> bool.

  (* try_fast_get, and one iteration of collect_get_keys, on a buffer that starts with a GET header *)
  Definition recog_get (b : bytes) : fres :=
    match scan_bulk HEADER_LEN (skipn HEADER_LEN b) with
    | SOk key used => if utf8_ok key then FGet key (HEADER_LEN + used) else FNot
    | SNeed => FNeed
    | SNot => FNot
    end.

  (* try_fast_set, and one iteration of collect_set_pairs *)
  Definition recog_set (b : bytes) : fres :=
    match scan_bulk HEADER_LEN (skipn HEADER_LEN b) with
    | SOk key u1 =>
      match scan_bulk (HEADER_LEN + u1) (skipn (HEADER_LEN + u1) b) with
      | SOk val u2 => if utf8_ok key then FSet key val (HEADER_LEN + u1 + u2) else FNot
      | SNeed => FNeed
      | SNot => FNot
      end
    | SNeed => FNeed
    | SNot => FNot
    end.

  (* try_fast_path *)
  Definition try_fast_path (b : bytes) : fres :=
    if (length b <? 12)%nat then FNot
    else if is_get_hdr b then recog_get b
    else if is_set_hdr b then recog_set b
    else FNot.

  (* collect_get_keys: the keys of the leading recognisable GET frames and the bytes they occupy.
     [fuel]: loop iterations (every iteration skips at least one byte). *)
  Fixpoint collect_gets (fuel : nat) (buf : bytes) : list bytes * nat :=
    match fuel with
    | O => ([], 0)
    | S f =>
      if (length buf <? HEADER_LEN + 1)%nat || negb (is_get_hdr buf) then ([], 0)
      else
        match recog_get buf with
        | FGet key n => let r := collect_gets f (skipn n buf) in (key :: fst r, n + snd r)
        | _ => ([], 0)
        end
    end.

  (* collect_set_pairs *)
  Fixpoint collect_sets (fuel : nat) (buf : bytes) : list (bytes * bytes) * nat :=
    match fuel with
    | O => ([], 0)
    | S f =>
      if (length buf <? HEADER_LEN + 1)%nat || negb (is_set_hdr buf) then ([], 0)
      else
        match recog_set buf with
        | FSet key val n => let r := collect_sets f (skipn n buf) in ((key, val) :: fst r, n + snd r)
        | _ => ([], 0)
        end
    end.

  (* ---------------------------------------------------------------- the backend *)
  Variable St : Type.
  Variable cmd : Type.
  Variable decode_cmd : resp -> cmd + bytes.
  Variable exec : St -> cmd -> St * resp.
  Variable fast_get : St -> bytes -> St * resp.
  Variable fast_set : St -> bytes -> bytes -> St * resp.
  Variable batch_get : St -> list bytes -> St * list resp.
  Variable batch_set : St -> list (bytes * bytes) -> St * list resp.

  (* what the connection state machine distinguishes about a command *)
  Inductive ckind :=
  | KMulti | KExec | KDiscard
  | KWatch (keys : list bytes)
  | KUnwatch
  | KStubChan                 (* Unknown(name), name a PUBLISH/SUBSCRIBE-family stub *)
  | KStubOther                (* Unknown(name), any other stub (HELLO, RESET, CLIENT .., CONFIG .., ACL ..) *)
  | KUnknown (lname : bytes)  (* Unknown(name), not a stub; lname = name.to_lowercase() *)
  | KPlain.                   (* everything else: (permissive) ACL check, then state.execute *)
  Variable kind : cmd -> ckind.
  Variable cmd_get : bytes -> cmd.          (* Command::Get(key) *)
  Variable cmd_set : bytes -> bytes -> cmd. (* Command::Set { key, value, no options } *)
  Variable stub_reply : cmd -> resp.

  (* ---------------------------------------------------------------- replies built by the handler *)
  (* RespValue::err and (after the repair) encode_error_into replace CR and LF by spaces *)
  Definition sanitize (s : bytes) : bytes :=
    map (fun c => if (c =? 13)%N || (c =? 10)%N then 32%N else c) s.

  (* encode_error_into(msg): "ERR " is prepended unless msg starts with a known error code *)
  Definition known_prefix (m : bytes) : bool :=
    starts_with (str "ERR ") m || starts_with (str "WRONGTYPE ") m || starts_with (str "WRONGPASS ") m
    || starts_with (str "EXECABORT ") m || starts_with (str "NOAUTH ") m || starts_with (str "NOPERM ") m.
  Definition err_into (m : bytes) : resp :=
    RError (sanitize (if known_prefix m then m else str "ERR " ++ m)).

  Definition R_OK : resp := RSimple (str "OK").
  Definition R_QUEUED : resp := RSimple (str "QUEUED").
  Definition R_PROTO : resp := RError (str "ERR protocol error").
  Definition R_OVERFLOW : resp := RError (str "ERR buffer overflow").
  Definition R_EXECABORT : resp := RError (str "EXECABORT Transaction discarded because of previous errors.").
  Definition R_NESTED : resp := RError (str "ERR MULTI calls can not be nested").
  Definition R_WATCH_IN_MULTI : resp := RError (str "ERR WATCH inside MULTI is not allowed").
  Definition R_EXEC_NO_MULTI : resp := RError (str "ERR EXEC without MULTI").
  Definition R_DISCARD_NO_MULTI : resp := RError (str "ERR DISCARD without MULTI").
  Definition R_NOPERM_CHAN : resp :=
    RError (str "NOPERM this user has no permissions to access the channel used as argument").
  Definition R_UNKNOWN_IN_MULTI (lname : bytes) : resp :=
    RError (sanitize (str "ERR unknown command '" ++ lname ++ str "', with args beginning with: ")).

  (* resp_values_equal *)
  Fixpoint resp_eqb (a b : resp) : bool :=
    match a, b with
    | RSimple x, RSimple y | RError x, RError y | RBulk x, RBulk y => bytes_eqb x y
    | RInt x, RInt y => (x =? y)%Z
    | RNilBulk, RNilBulk | RNilArr, RNilArr => true
    | RArr l, RArr k =>
        (fix go (l k : list resp) : bool :=
           match l, k with
           | [], [] => true
           | x :: l', y :: k' => resp_eqb x y && go l' k'
           | _, _ => false
           end) l k
    | _, _ => false
    end.

  (* ---------------------------------------------------------------- connection-level transactions *)
  Record txstate := mkTx {
    in_tx : bool;                        (* in_transaction *)
    queue : list cmd;                    (* transaction_queue *)
    tx_err : bool;                       (* transaction_errors *)
    watched : list (bytes * resp)        (* watched_keys: key and its GET reply at WATCH time *)
  }.
  Definition tx_idle : txstate := mkTx false [] false [].

  Record core := mkCore {
    st : St;                             (* the shared backend *)
    txs : txstate;
    outp : list resp                     (* replies written so far, in order *)
  }.
  Definition core_init (s : St) : core := mkCore s tx_idle [].

  (* WATCH k1 .. kn outside MULTI: one GET per key, appended to watched_keys *)
  Fixpoint snapshot (s : St) (keys : list bytes) : St * list (bytes * resp) :=
    match keys with
    | [] => (s, [])
    | k :: t =>
      let '(s1, r) := exec s (cmd_get k) in
      let '(s2, l) := snapshot s1 t in
      (s2, (k, r) :: l)
    end.

  (* EXEC: compare every watched key's current GET reply with the snapshot, stop at the first
     difference; true = nothing changed *)
  Fixpoint watch_unchanged (s : St) (w : list (bytes * resp)) : St * bool :=
    match w with
    | [] => (s, true)
    | (k, old) :: t =>
      let '(s1, cur) := exec s (cmd_get k) in
      if resp_eqb cur old then watch_unchanged s1 t else (s1, false)
    end.

  (* EXEC: the queue is replayed with state.execute, one by one *)
  Fixpoint run_queue (s : St) (q : list cmd) : St * list resp :=
    match q with
    | [] => (s, [])
    | c :: t =>
      let '(s1, r) := exec s c in
      let '(s2, l) := run_queue s1 t in
      (s2, r :: l)
    end.

  (* the `Ok(cmd)` arm of try_execute_command *)
  Definition dispatch (c : core) (cm : cmd) : core :=
    let t := txs c in
    if in_tx t then
      match kind cm with
      | KExec =>
        if tx_err t then mkCore (st c) tx_idle (outp c ++ [R_EXECABORT])
        else
          let '(s1, same) := watch_unchanged (st c) (watched t) in
          if same then
            let '(s2, rs) := run_queue s1 (queue t) in
            mkCore s2 tx_idle (outp c ++ [RArr rs])
          else mkCore s1 tx_idle (outp c ++ [RNilArr])
      | KDiscard => mkCore (st c) tx_idle (outp c ++ [R_OK])
      | KMulti => mkCore (st c) t (outp c ++ [R_NESTED])
      | KWatch _ => mkCore (st c) t (outp c ++ [R_WATCH_IN_MULTI])
      | KStubChan => mkCore (st c) (mkTx true (queue t) true (watched t)) (outp c ++ [R_NOPERM_CHAN])
      | KUnknown lname =>
        mkCore (st c) (mkTx true (queue t) true (watched t)) (outp c ++ [R_UNKNOWN_IN_MULTI lname])
      | KStubOther | KUnwatch | KPlain =>
        mkCore (st c) (mkTx true (queue t ++ [cm]) (tx_err t) (watched t)) (outp c ++ [R_QUEUED])
      end
    else
      match kind cm with
      | KMulti => mkCore (st c) (mkTx true [] false (watched t)) (outp c ++ [R_OK])
      | KExec => mkCore (st c) t (outp c ++ [R_EXEC_NO_MULTI])
      | KDiscard => mkCore (st c) t (outp c ++ [R_DISCARD_NO_MULTI])
      | KWatch keys =>
        let '(s1, snap) := snapshot (st c) keys in
        mkCore s1 (mkTx false (queue t) (tx_err t) (watched t ++ snap)) (outp c ++ [R_OK])
      | KUnwatch => mkCore (st c) (mkTx false (queue t) (tx_err t) []) (outp c ++ [R_OK])
      | KStubChan | KStubOther => mkCore (st c) t (outp c ++ [stub_reply cm])
      | KUnknown _ | KPlain =>
        let '(s1, r) := exec (st c) cm in
        mkCore s1 t (outp c ++ [r])
      end.

  (* one decoded frame: Command::from_resp_zero_copy, then dispatch or the command-parse error *)
  Definition handle_frame (c : core) (v : resp) : core :=
    match decode_cmd v with
    | inl cm => dispatch c cm
    | inr e =>
      let t := txs c in
      mkCore (st c) (if in_tx t then mkTx true (queue t) true (watched t) else t) (outp c ++ [err_into e])
    end.

  (* the fast path and the batches *)
  Definition do_fast_get (c : core) (key : bytes) : core :=
    let '(s1, r) := fast_get (st c) key in mkCore s1 (txs c) (outp c ++ [r]).
  Definition do_fast_set (c : core) (key val : bytes) : core :=
    let '(s1, r) := fast_set (st c) key val in mkCore s1 (txs c) (outp c ++ [r]).
  Definition do_batch_get (c : core) (keys : list bytes) : core :=
    let '(s1, rs) := batch_get (st c) keys in mkCore s1 (txs c) (outp c ++ rs).
  Definition do_batch_set (c : core) (pairs : list (bytes * bytes)) : core :=
    let '(s1, rs) := batch_set (st c) pairs in mkCore s1 (txs c) (outp c ++ rs).

  (* ---------------------------------------------------------------- one read *)
  Record cfg := mk_cfg {
    min_pipeline_buffer : N;
    batch_threshold : N;
    max_buffer_size : N
  }.

  Inductive dres :=
  | DMore (c : core) (rest : bytes)      (* NeedMoreData: [rest] stays in the buffer *)
  | DErr (c : core)                      (* ParseError: buffer cleared, "-ERR protocol error" written *)
  | DPanic.                              (* a Rust panic site (or the model's fuel) was reached *)

  (* loop { try_execute_command } *)
  Fixpoint drain (fuel : nat) (c : core) (b : bytes) : dres :=
    match fuel with
    | O => DPanic
    | S f =>
      match (if in_tx (txs c) then FNot else try_fast_path b) with
      | FGet key n => drain f (do_fast_get c key) (skipn n b)
      | FSet key val n => drain f (do_fast_set c key val) (skipn n b)
      | FNeed => DMore c b
      | FNot =>
        match parse true b with
        | Done v n => drain f (handle_frame c v) (skipn n b)
        | Incomplete => DMore c b
        | Err _ => DErr (mkCore (st c) (txs c) (outp c ++ [R_PROTO]))
        | Panic | OutOfFuel => DPanic
        end
      end
    end.

  (* the batching prologue of a read *)
  Definition batch_phase (g : cfg) (c : core) (b : bytes) : core * bytes :=
    if (min_pipeline_buffer g <=? N.of_nat (length b))%N && negb (in_tx (txs c)) then
      let '(keys, used) := collect_gets (S (length b)) b in
      let '(c1, b1) :=
        if (batch_threshold g <=? N.of_nat (length keys))%N
        then (do_batch_get c keys, skipn used b) else (c, b) in
      if (min_pipeline_buffer g <=? N.of_nat (length b1))%N then
        let '(pairs, used2) := collect_sets (S (length b1)) b1 in
        if (batch_threshold g <=? N.of_nat (length pairs))%N
        then (do_batch_set c1 pairs, skipn used2 b1) else (c1, b1)
      else (c1, b1)
    else (c, b).

  Inductive cstatus := Open | Closed | Dead.
  Record conn := mkConn {
    cbuf : bytes;            (* self.buffer *)
    ccore : core;
    cstat : cstatus          (* Closed: EOF or buffer overflow; Dead: the task panicked *)
  }.
  Definition conn_init (s : St) : conn := mkConn [] (core_init s) Open.

  (* one iteration of the read loop; an empty read is EOF *)
  Definition on_read (g : cfg) (k : conn) (chunk : bytes) : conn :=
    match cstat k with
    | Open =>
      match chunk with
      | [] => mkConn (cbuf k) (ccore k) Closed
      | _ :: _ =>
        if (max_buffer_size g <? N.of_nat (length (cbuf k)) + N.of_nat (length chunk))%N then
          let c := ccore k in
          mkConn (cbuf k) (mkCore (st c) (txs c) (outp c ++ [R_OVERFLOW])) Closed
        else
          let b := cbuf k ++ chunk in
          let '(c1, b1) := batch_phase g (ccore k) b in
          match drain (S (length b1)) c1 b1 with
          | DMore c2 rest => mkConn rest c2 Open
          | DErr c2 => mkConn [] c2 Open
          | DPanic => mkConn b1 c1 Dead
          end
      end
    | _ => k
    end.

  Definition run (g : cfg) (s : St) (reads : list bytes) : conn :=
    fold_left (on_read g) reads (conn_init s).

  (* bytes on the wire: encode_resp_into = RespCodec's encoder *)
  Definition wire (rs : list resp) : bytes := flat_map encode rs.
  Definition output (k : conn) : list resp := outp (ccore k).

  (* ---------------------------------------------------------------- the reference *)
  (* decode the whole stream with the generic decoder, hand every frame to the command layer:
     no fast path, no batching, no segmentation *)
  Definition reference_core (s : St) (stream : bytes) : core :=
    fold_left handle_frame (fst (decode_stream true stream)) (core_init s).
  Definition reference (s : St) (stream : bytes) : list resp := outp (reference_core s stream).

  (* the same, read by read: what a handler without fast path and batching does with one read *)
  Definition ref_read (k : conn) (chunk : bytes) : conn :=
    match cstat k with
    | Open =>
      let r := decode_stream true (cbuf k ++ chunk) in
      let c := fold_left handle_frame (fst r) (ccore k) in
      match snd r with
      | TMore rest => mkConn rest c Open
      | TErr _ => mkConn [] (mkCore (st c) (txs c) (outp c ++ [R_PROTO])) Open
      | TPanic | TOutOfFuel => mkConn (cbuf k ++ chunk) (ccore k) Dead
      end
    | _ => k
    end.

  (* ---------------------------------------------------------------- what is assumed of the backend *)
  (* the batch pipelines answer like one fast GET / SET after the other *)
  Fixpoint seq_gets (s : St) (ks : list bytes) : St * list resp :=
    match ks with
    | [] => (s, [])
    | k :: t => let '(s1, r) := fast_get s k in let '(s2, l) := seq_gets s1 t in (s2, r :: l)
    end.
  Fixpoint seq_sets (s : St) (ps : list (bytes * bytes)) : St * list resp :=
    match ps with
    | [] => (s, [])
    | (k, v) :: t => let '(s1, r) := fast_set s k v in let '(s2, l) := seq_sets s1 t in (s2, r :: l)
    end.

  (* The command layer reads a two-element GET frame / three-element SET frame with a UTF-8 key
     as the plain commands Get / Set, and the fast entry points of the backend (pooled_fast_get,
     pooled_fast_set, fast_batch_*_pipeline) answer like state.execute on those commands.  The
     mini backend satisfies this by construction (Proofs/ConnProofs.v: mini_backend_ok); for the
     real backend it is what the correspondence check and the direct oracles test. *)
  Definition backend_ok : Prop :=
    (forall nm k, is_get_name nm -> utf8_ok k = true ->
                  decode_cmd (RArr [RBulk nm; RBulk k]) = inl (cmd_get k)) /\
    (forall nm k v, is_set_name nm -> utf8_ok k = true ->
                    decode_cmd (RArr [RBulk nm; RBulk k; RBulk v]) = inl (cmd_set k v)) /\
    (forall k, kind (cmd_get k) = KPlain) /\
    (forall k v, kind (cmd_set k v) = KPlain) /\
    (forall s k, fast_get s k = exec s (cmd_get k)) /\
    (forall s k v, fast_set s k v = exec s (cmd_set k v)) /\
    (forall s ks, batch_get s ks = seq_gets s ks) /\
    (forall s ps, batch_set s ps = seq_sets s ps).

  (* ---------------------------------------------------------------- two clients, one backend (C05) *)
  (* Two connections A (who = true) and B (who = false) over the same backend; their commands
     interleave at command boundaries (each step is one whole frame handed to the command layer of
     one of the two connections). *)
  Record sys := mkSys {
    sst : St;
    txa : txstate; txb : txstate;
    outa : list resp; outb : list resp
  }.
  Definition step2 (y : sys) (who : bool) (v : resp) : sys :=
    if who then
      let c := handle_frame (mkCore (sst y) (txa y) (outa y)) v in
      mkSys (st c) (txs c) (txb y) (outp c) (outb y)
    else
      let c := handle_frame (mkCore (sst y) (txb y) (outb y)) v in
      mkSys (st c) (txa y) (txs c) (outa y) (outp c).
  Definition run2 (y : sys) (sched : list (bool * resp)) : sys :=
    fold_left (fun y p => step2 y (fst p) (snd p)) sched y.
  (* the commands of client A in a schedule, in order *)
  Definition a_cmds (sched : list (bool * resp)) : list cmd :=
    flat_map (fun p : bool * resp =>
                if fst p then match decode_cmd (snd p) with inl c => [c] | inr _ => [] end else []) sched.
  (* the kinds of command that MULTI queues *)
  Definition queueable (k : ckind) : Prop := k = KPlain \/ k = KUnwatch \/ k = KStubOther.
  (* the reply GET k gets in backend state s *)
  Definition get_reply (s : St) (k : bytes) : resp := snd (exec s (cmd_get k)).
  (* the snapshots client A's WATCH commands take along a schedule that starts in state y: one
     (key, GET reply at that instant) per key named, in order - a key watched again (or repeated
     inside one WATCH) gets a further entry, the earlier ones stay *)
  Fixpoint watch_snaps (y : sys) (sched : list (bool * resp)) : list (bytes * resp) :=
    match sched with
    | [] => []
    | (who, v) :: t =>
      (if who then
         match decode_cmd v with
         | inl cm => match kind cm with
                     | KWatch ks => map (fun k => (k, get_reply (sst y) k)) ks
                     | _ => []
                     end
         | inr _ => []
         end
       else []) ++ watch_snaps (step2 y who v) t
    end.

  (* a stream of well-formed frames (possibly with an unfinished frame at the end) *)
  Definition wf_stream (stream : bytes) : Prop :=
    exists rest, snd (decode_stream true stream) = TMore rest.

End Handler.

(* ------------------------------------------------------------------ executor-level transactions *)
(* The MULTI / EXEC / DISCARD / WATCH / UNWATCH of CommandExecutor itself
     src/redis/executor/mod.rs          execute(): the `if self.in_transaction` prologue
     src/redis/executor/transaction_ops.rs  execute_multi / exec / discard / watch / unwatch
   - the path of the simulator, the DST harnesses and every direct caller of execute(); the production
   connection handler never sends these five commands to an executor.  One client: while a transaction
   is open every command other than EXEC / DISCARD / MULTI / WATCH is queued, so "another client's
   write" can only be a command executed between WATCH and MULTI.  WATCH stores the value found under
   the key ([read_key], any type; an expired key reads as absent: set_time evicts before every command)
   and EXEC compares stored values.  As repaired (C05-executor-rewatch): watched_keys keeps, per key,
   what EVERY WATCH of it saw (the model: one entry per WATCH and key named; the code stores consecutive
   equal snapshots once, which EXEC cannot tell apart).  Generic in the executor's ordinary commands [exec_plain]. *)
Section ExecutorTx.
  Variable St : Type.
  Variable cmd : Type.
  Variable V : Type.
  Variable exec_plain : St -> cmd -> St * resp.
  Variable kind : cmd -> ckind.
  Variable read_key : St -> bytes -> V.
  Variable veqb : V -> V -> bool.

  Record xstate := mkX {
    x_st : St;
    x_in : bool;                      (* in_transaction *)
    x_queue : list cmd;               (* queued_commands *)
    x_watched : list (bytes * V)      (* watched_keys: (key, value seen by a WATCH of it) *)
  }.
  Definition x_init (s : St) : xstate := mkX s false [] [].

  Fixpoint x_has (k : bytes) (w : list (bytes * V)) : bool :=
    match w with [] => false | (k', _) :: t => bytes_eqb k k' || x_has k t end.
  (* execute_watch *)
  Definition x_watch (s : St) (w : list (bytes * V)) (ks : list bytes) : list (bytes * V) :=
    w ++ map (fun k => (k, read_key s k)) ks.
  (* a queued command when EXEC replays it: the transaction is closed by then; UNWATCH finds nothing *)
  Definition x_exec1 (s : St) (c : cmd) : St * resp :=
    match kind c with
    | KUnwatch => (s, RSimple (str "OK"))
    | _ => exec_plain s c
    end.
  Fixpoint x_run (s : St) (q : list cmd) : St * list resp :=
    match q with
    | [] => (s, [])
    | c :: t => let '(s1, r) := x_exec1 s c in let '(s2, l) := x_run s1 t in (s2, r :: l)
    end.
  Definition x_violated (s : St) (w : list (bytes * V)) : bool :=
    existsb (fun p => negb (veqb (read_key s (fst p)) (snd p))) w.

  Definition x_step (x : xstate) (c : cmd) : xstate * resp :=
    if x_in x then
      match kind c with
      | KExec =>
        if x_violated (x_st x) (x_watched x) then (mkX (x_st x) false [] [], RNilBulk)
        else let '(s', rs) := x_run (x_st x) (x_queue x) in (mkX s' false [] [], RArr rs)
      | KDiscard => (mkX (x_st x) false [] [], RSimple (str "OK"))
      | KMulti => (x, RError (str "ERR MULTI calls can not be nested"))
      | KWatch _ => (x, RError (str "ERR WATCH inside MULTI is not allowed"))
      | _ => (mkX (x_st x) true (x_queue x ++ [c]) (x_watched x), RSimple (str "QUEUED"))
      end
    else
      match kind c with
      | KMulti => (mkX (x_st x) true [] (x_watched x), RSimple (str "OK"))
      | KExec => (x, RError (str "ERR EXEC without MULTI"))
      | KDiscard => (x, RError (str "ERR DISCARD without MULTI"))
      | KWatch ks => (mkX (x_st x) false (x_queue x) (x_watch (x_st x) (x_watched x) ks), RSimple (str "OK"))
      | KUnwatch => (mkX (x_st x) false (x_queue x) [], RSimple (str "OK"))
      | _ => let '(s', r) := exec_plain (x_st x) c in (mkX s' false (x_queue x) (x_watched x), r)
      end.

  Definition x_steps (x : xstate) (cs : list cmd) : xstate :=
    fold_left (fun x c => fst (x_step x c)) cs x.
End ExecutorTx.

(* C02 — the message-passing protocol of the shard actors
   (src/production/sharded_actor.rs, src/production/response_pool.rs), generic in the
   sequential machine each shard owns, plus the vocabulary of concurrent histories and the
   executable linearizability checker used by the correspondence.  Definitions only.

   What is modelled (and what is not):
   * one FIFO mailbox per shard (tokio unbounded mpsc: `ShardHandle.tx`), one machine state per
     shard owned by the shard task (`ShardActor.executor`), clients that have at most one
     request in flight each, the reply cell a request carries (a fresh oneshot channel for
     `Command`/`Fast..`/`FastBatch..`, a `ResponseSlot` taken from `ResponsePool` for `Pooled..`),
     the pool's free queue (`ArrayQueue`: pop front, push back, bounded by `cap`, a fresh slot
     when empty, a released slot is reset and dropped when the queue is full);
   * every interleaving of clients and shard tasks = every list of labels on which [run]
     succeeds (the schedule is the oracle the theorems quantify over);
   * NOT modelled: the tokio scheduler and wakers, the mutex inside `ResponseSlot`, future
     cancellation, `unsafe from_utf8_unchecked`, `set_time`/TTL eviction (time-dependent
     commands are outside C02's histories), fire-and-forget `BatchCommand`, `EvictExpired`. *)
From Coq Require Import List Arith NArith ZArith Bool Lia Permutation Sorted.
From RV Require Import Lib.Hex.
Import ListNotations.

(* ------------------------------------------------------------------------------------ *)
(* 1. Concurrent histories over an arbitrary sequential machine                           *)
(* ------------------------------------------------------------------------------------ *)

(* One operation of a history: invocation time, response time (None = still pending),
   the operation and the reply it got (for a pending operation: the reply a linearization
   assigns to it). *)
Record oprec (Op Reply : Type) := OpRec {
  o_id : nat; o_inv : nat; o_ret : option nat; o_op : Op; o_rep : Reply }.
Arguments OpRec {Op Reply}.
Arguments o_id {Op Reply}.
Arguments o_inv {Op Reply}.
Arguments o_ret {Op Reply}.
Arguments o_op {Op Reply}.
Arguments o_rep {Op Reply}.

(* A pending invocation (no reply yet). *)
Record pendrec (Op : Type) := PendRec { p_id : nat; p_inv : nat; p_op : Op }.
Arguments PendRec {Op}.
Arguments p_id {Op}.
Arguments p_inv {Op}.
Arguments p_op {Op}.

Definition completion {Op Reply} (p : pendrec Op) (r : Reply) : oprec Op Reply :=
  OpRec (p_id p) (p_inv p) None (p_op p) r.

Definition opr {Op Reply} (o : oprec Op Reply) : Op * Reply := (o_op o, o_rep o).

(* a returned before b was invoked *)
Definition rt_before {Op Reply} (a b : oprec Op Reply) : Prop :=
  match o_ret a with Some r => r < o_inv b | None => False end.
Definition rt_beforeb {Op Reply} (a b : oprec Op Reply) : bool :=
  match o_ret a with Some r => r <? o_inv b | None => false end.

(* the order never puts b before a when a returned before b was invoked *)
Fixpoint rt_ok {Op Reply} (l : list (oprec Op Reply)) : Prop :=
  match l with
  | [] => True
  | a :: t => (forall b, In b t -> ~ rt_before b a) /\ rt_ok t
  end.

(* all ways of taking one element out of a list *)
Fixpoint picks {A} (l : list A) : list (A * list A) :=
  match l with
  | [] => []
  | x :: t => (x, t) :: map (fun p => (fst p, x :: snd p)) (picks t)
  end.

Fixpoint existsb_lazy {A} (f : A -> bool) (l : list A) : bool :=
  match l with
  | [] => false
  | a :: t => if f a then true else existsb_lazy f t
  end.

Fixpoint perms {A} (l : list A) (fuel : nat) : list (list A) :=
  match fuel with
  | O => [[]]
  | S f => match l with
           | [] => [[]]
           | _ => flat_map (fun p => map (cons (fst p)) (perms (snd p) f)) (picks l)
           end
  end.

Section Hist.
  Variable S Op Reply : Type.
  Variable step : S -> Op -> S * Reply.

  (* a legal sequential run: each operation, applied in list order, yields the listed reply *)
  Fixpoint legal (s : S) (l : list (Op * Reply)) : Prop :=
    match l with
    | [] => True
    | (op, r) :: t => snd (step s op) = r /\ legal (fst (step s op)) t
    end.
  Fixpoint final (s : S) (l : list (Op * Reply)) : S :=
    match l with
    | [] => s
    | (op, _) :: t => final (fst (step s op)) t
    end.

  (* [order] contains every completed operation, and otherwise only completions of pending
     invocations; no operation twice *)
  Definition covers (comp : list (oprec Op Reply)) (pend : list (pendrec Op))
                    (order : list (oprec Op Reply)) : Prop :=
    NoDup (map o_id order) /\
    (forall o, In o comp -> In o order) /\
    (forall o, In o order -> In o comp \/ exists p r, In p pend /\ o = completion p r).

  (* Linearizability, classical form (Herlihy & Wing): some completion of the history has a
     real-time-respecting total order that is a legal sequential run with the observed
     replies. *)
  Definition linearizable (init : S) (comp : list (oprec Op Reply)) (pend : list (pendrec Op)) : Prop :=
    exists order, covers comp pend order /\ legal init (map opr order) /\ rt_ok order.

  (* Linearization-point form: every operation of the order has an instant strictly inside
     its invocation/response interval; the order is the order of the instants. *)
  Definition point_ok (x : oprec Op Reply * nat) : Prop :=
    o_inv (fst x) < snd x /\ forall k, o_ret (fst x) = Some k -> snd x < k.
  Definition lin_points (init : S) (comp : list (oprec Op Reply)) (pend : list (pendrec Op)) : Prop :=
    exists order : list (oprec Op Reply * nat),
      covers comp pend (map fst order) /\ legal init (map opr (map fst order)) /\
      StronglySorted lt (map snd order) /\ Forall point_ok order.

  (* Complete histories (what the correspondence produces: every client is awaited). *)
  Definition linearizable_complete (init : S) (h : list (oprec Op Reply)) : Prop :=
    exists order, Permutation order h /\ legal init (map opr order) /\ rt_ok order.

  (* ---- the executable checker: depth-first search over the real-time-respecting orders -- *)
  Variable rep_eqb : Reply -> Reply -> bool.

  Definition minimal (o : oprec Op Reply) (rest : list (oprec Op Reply)) : bool :=
    forallb (fun p => negb (rt_beforeb p o)) rest.

  (* [vm_compute] evaluates arguments first, so [&&], [||] and [existsb] would explore the
     whole tree; [if] and this [existsb_lazy] stop at the first success / first failure *)
  Fixpoint lin_search (fuel : nat) (s : S) (todo : list (oprec Op Reply)) : bool :=
    match todo with
    | [] => true
    | _ => match fuel with
           | O => false
           | Datatypes.S f =>
               existsb_lazy (fun p =>
                   if minimal (fst p) (snd p) then
                     if rep_eqb (snd (step s (o_op (fst p)))) (o_rep (fst p)) then
                       lin_search f (fst (step s (o_op (fst p)))) (snd p)
                     else false
                   else false)
                 (picks todo)
           end
    end.
  Definition lin_check_gen (init : S) (h : list (oprec Op Reply)) : bool :=
    lin_search (length h) init h.

  (* ---- a second, independent decision procedure: enumerate ALL permutations, then test
     each one against the definition (real-time order, then legality).  Exponential without
     pruning; only used to re-examine a [false] answer of the search on short histories. *)
  Fixpoint legalb (s : S) (l : list (oprec Op Reply)) : bool :=
    match l with
    | [] => true
    | o :: t => rep_eqb (snd (step s (o_op o))) (o_rep o) && legalb (fst (step s (o_op o))) t
    end.
  Fixpoint rt_okb (l : list (oprec Op Reply)) : bool :=
    match l with
    | [] => true
    | a :: t => forallb (fun b => negb (rt_beforeb b a)) t && rt_okb t
    end.
  Definition lin_brute_gen (init : S) (h : list (oprec Op Reply)) : bool :=
    existsb (fun order => rt_okb order && legalb init order) (perms h (length h)).
End Hist.

(* ------------------------------------------------------------------------------------ *)
(* 2. The actor system                                                                    *)
(* ------------------------------------------------------------------------------------ *)

(* The three ways a request reaches a shard (ShardMessage::Command, the Fast and FastBatch messages,
   the Pooled messages).  They differ in the reply cell: a fresh oneshot channel, or a pooled slot. *)
Inductive kind := KGeneric | KFast | KPooled.

Definition upd {A} (f : nat -> A) (i : nat) (x : A) : nat -> A :=
  fun j => if Nat.eqb j i then x else f j.

Section Actor.
  Variable S Op Reply : Type.
  Variable step : S -> Op -> S * Reply.
  Variable route : Op -> nat.          (* hash_key / hash_key_bytes modulo num_shards *)
  Variable cap : nat.                  (* ResponsePool capacity *)

  (* rq_id and rq_tinv are ghost fields (operation identity, invocation instant); no
     transition inspects them. *)
  Record request := Rq { rq_id : nat; rq_client : nat; rq_op : Op; rq_slot : nat; rq_tinv : nat }.

  Inductive cstate := Idle | Waiting (rq : request) (k : kind) | Done (r : Reply).

  Record sys := Sys {
    mbox : nat -> list request;        (* per shard: FIFO mailbox *)
    mach : nat -> S;                   (* per shard: the machine the shard task owns *)
    cli : nat -> cstate;               (* per client *)
    slots : nat -> option Reply;       (* content of reply cell n *)
    free : list nat;                   (* ResponsePool queue *)
    next_slot : nat;                   (* cells >= next_slot were never allocated *)
    next_id : nat;                     (* ghost: operations invoked so far *)
    now : nat                          (* ghost: transitions taken so far *)
  }.

  Inductive label := LInvoke (c : nat) (k : kind) (op : Op) | LProcess (sh : nat) | LReturn (c : nat).

  Inductive event :=
  | EInv (rq : request) (k : kind)
  | EProc (sh : nat) (rq : request) (r : Reply) (t : nat)
  | ERet (rq : request) (r : Reply) (t : nat).

  Definition ev_time (e : event) : nat :=
    match e with EInv rq _ => rq_tinv rq | EProc _ _ _ t => t | ERet _ _ t => t end.

  (* ResponsePool::acquire for the pooled kind; `oneshot::channel()` otherwise *)
  Definition acquire (k : kind) (s : sys) : nat * list nat * nat :=
    match k, free s with
    | KPooled, x :: f' => (x, f', next_slot s)
    | _, _ => (next_slot s, free s, Datatypes.S (next_slot s))
    end.

  (* ResponsePool::release: reset, then push unless the queue is full *)
  Definition release (k : kind) (slot : nat) (fr : list nat) : list nat :=
    match k with
    | KPooled => if length fr <? cap then fr ++ [slot] else fr
    | _ => fr
    end.

  Definition sys_step (s : sys) (l : label) : option (sys * event) :=
    match l with
    | LInvoke c k op =>
        match cli s c with
        | Waiting _ _ => None
        | _ =>
            let '(slot, fr, nx) := acquire k s in
            let rq := Rq (next_id s) c op slot (now s) in
            Some (Sys (upd (mbox s) (route op) (mbox s (route op) ++ [rq])) (mach s)
                      (upd (cli s) c (Waiting rq k)) (slots s) fr nx
                      (Datatypes.S (next_id s)) (Datatypes.S (now s)),
                  EInv rq k)
        end
    | LProcess sh =>
        match mbox s sh with
        | [] => None
        | rq :: rest =>
            let st := fst (step (mach s sh) (rq_op rq)) in
            let r := snd (step (mach s sh) (rq_op rq)) in
            Some (Sys (upd (mbox s) sh rest) (upd (mach s) sh st) (cli s)
                      (upd (slots s) (rq_slot rq) (Some r)) (free s) (next_slot s)
                      (next_id s) (Datatypes.S (now s)),
                  EProc sh rq r (now s))
        end
    | LReturn c =>
        match cli s c with
        | Waiting rq k =>
            match slots s (rq_slot rq) with
            | Some r =>
                Some (Sys (mbox s) (mach s) (upd (cli s) c (Done r))
                          (upd (slots s) (rq_slot rq) None)
                          (release k (rq_slot rq) (free s)) (next_slot s)
                          (next_id s) (Datatypes.S (now s)),
                      ERet rq r (now s))
            | None => None
            end
        | _ => None
        end
    end.

  Definition sys_init (g : nat -> S) (prewarm : nat) : sys :=
    Sys (fun _ => []) g (fun _ => Idle) (fun _ => None) (seq 0 prewarm) prewarm 0 0.

  Fixpoint run (s : sys) (ls : list label) : option (sys * list event) :=
    match ls with
    | [] => Some (s, [])
    | l :: ls' =>
        match sys_step s l with
        | None => None
        | Some (s1, e) =>
            match run s1 ls' with
            | None => None
            | Some (s2, es) => Some (s2, e :: es)
            end
        end
    end.

  (* the whole node as one sequential machine: the product of the shard machines *)
  Definition gstep (g : nat -> S) (op : Op) : (nat -> S) * Reply :=
    (upd g (route op) (fst (step (g (route op)) op)), snd (step (g (route op)) op)).

  (* ---- what a trace shows ---- *)
  Definition inv_ids (evs : list event) : list nat :=
    flat_map (fun e => match e with EInv rq _ => [rq_id rq] | _ => [] end) evs.
  Definition proc_ids (evs : list event) : list nat :=
    flat_map (fun e => match e with EProc _ rq _ _ => [rq_id rq] | _ => [] end) evs.
  Definition ret_ids (evs : list event) : list nat :=
    flat_map (fun e => match e with ERet rq _ _ => [rq_id rq] | _ => [] end) evs.

  (* the operations in the order the shard tasks processed them *)
  Definition procs (evs : list event) : list (Op * Reply) :=
    flat_map (fun e => match e with EProc _ rq r _ => [(rq_op rq, r)] | _ => [] end) evs.

  (* instant of the response of operation [id], if it has one *)
  Fixpoint find_ret (id : nat) (evs : list event) : option nat :=
    match evs with
    | [] => None
    | ERet rq _ t :: evs' => if Nat.eqb (rq_id rq) id then Some t else find_ret id evs'
    | _ :: evs' => find_ret id evs'
    end.

  (* the history of a trace: completed operations, pending invocations *)
  Definition completed (evs : list event) : list (oprec Op Reply) :=
    flat_map (fun e => match e with
                       | ERet rq r t => [OpRec (rq_id rq) (rq_tinv rq) (Some t) (rq_op rq) r]
                       | _ => [] end) evs.
  Definition pending (evs : list event) : list (pendrec Op) :=
    flat_map (fun e => match e with
                       | EInv rq _ => match find_ret (rq_id rq) evs with
                                      | None => [PendRec (rq_id rq) (rq_tinv rq) (rq_op rq)]
                                      | Some _ => [] end
                       | _ => [] end) evs.
  (* the witness: processed operations with the instant of their Process event *)
  Definition proc_order (evs : list event) : list (oprec Op Reply * nat) :=
    flat_map (fun e => match e with
                       | EProc _ rq r t =>
                           [(OpRec (rq_id rq) (rq_tinv rq) (find_ret (rq_id rq) evs) (rq_op rq) r, t)]
                       | _ => [] end) evs.
End Actor.

Arguments Rq {Op}.
Arguments rq_id {Op}.
Arguments rq_client {Op}.
Arguments rq_op {Op}.
Arguments rq_slot {Op}.
Arguments rq_tinv {Op}.
Arguments Idle {Op Reply}.
Arguments Waiting {Op Reply}.
Arguments Done {Op Reply}.
Arguments Sys {S Op Reply}.
Arguments mbox {S Op Reply}.
Arguments mach {S Op Reply}.
Arguments cli {S Op Reply}.
Arguments slots {S Op Reply}.
Arguments free {S Op Reply}.
Arguments next_slot {S Op Reply}.
Arguments next_id {S Op Reply}.
Arguments now {S Op Reply}.
Arguments LInvoke {Op}.
Arguments LProcess {Op}.
Arguments LReturn {Op}.
Arguments EInv {Op Reply}.
Arguments EProc {Op Reply}.
Arguments ERet {Op Reply}.
Arguments ev_time {Op Reply}.
Arguments acquire {S Op Reply}.
Arguments sys_step {S Op Reply}.
Arguments sys_init {S Op Reply}.
Arguments run {S Op Reply}.
Arguments gstep {S Op Reply}.
Arguments inv_ids {Op Reply}.
Arguments proc_ids {Op Reply}.
Arguments ret_ids {Op Reply}.
Arguments procs {Op Reply}.
Arguments find_ret {Op Reply}.
Arguments completed {Op Reply}.
Arguments pending {Op Reply}.
Arguments proc_order {Op Reply}.

(* ------------------------------------------------------------------------------------ *)
(* 3. Projection of a history to one key                                                  *)
(* ------------------------------------------------------------------------------------ *)
Section Project.
  Variable Op Reply KReply K : Type.
  Variable touches : Op -> K -> bool.
  Variable rproj : K -> Reply -> KReply.

  Definition proj_ops (k : K) (l : list (Op * Reply)) : list (Op * KReply) :=
    map (fun x => (fst x, rproj k (snd x))) (filter (fun x => touches (fst x) k) l).
  Definition proj_rec (k : K) (o : oprec Op Reply) : oprec Op KReply :=
    OpRec (o_id o) (o_inv o) (o_ret o) (o_op o) (rproj k (o_rep o)).
  Definition proj_hist (k : K) (l : list (oprec Op Reply)) : list (oprec Op KReply) :=
    map (proj_rec k) (filter (fun o => touches (o_op o) k) l).
  Definition proj_pend (k : K) (l : list (pendrec Op)) : list (pendrec Op) :=
    filter (fun p => touches (p_op p) k) l.
End Project.

(* a batch (FastBatchGet / FastBatchSet, or the commands of one Lua script) is one operation
   carrying a list, processed without interleaving *)
Section Batch.
  Variable S POp PReply : Type.
  Variable pstep : S -> POp -> S * PReply.
  Fixpoint batch_step (s : S) (ops : list POp) : S * list PReply :=
    match ops with
    | [] => (s, [])
    | p :: t => let s1 := fst (pstep s p) in
                let r := snd (pstep s p) in
                (fst (batch_step s1 t), r :: snd (batch_step s1 t))
    end.
End Batch.

(* ------------------------------------------------------------------------------------ *)
(* 4. The per-key machine of the correspondence: one key of the executor                  *)
(*    (strings, lists, sets, hashes; every single-key conditional / read-modify-write      *)
(*    command the concurrent runs issue; a list = one atomic script/batch)                 *)
(* ------------------------------------------------------------------------------------ *)
(* what one key holds; empty lists/sets/hashes do not exist (the executor deletes them) *)
Inductive kst :=
| KNone
| KStr (b : bytes)
| KList (l : list bytes)
| KSet (l : list bytes)                 (* no duplicates, insertion order *)
| KHash (l : list (bytes * bytes)).     (* no duplicate fields *)

Inductive prim :=
| PGet | PSet (v : bytes) | PIncrBy (z : Z) | PAppend (v : bytes) | PDel
| PSetNx (v : bytes)
| PSetOpt (v : bytes) (nx xx get : bool)        (* SET k v [NX|XX] [GET] *)
| PGetSet (v : bytes) | PGetDel
| PSetRange (off : nat) (v : bytes)
| PExists
| PLPush (v : bytes) | PRPush (v : bytes) | PLPop | PRPop | PLRange          (* LRANGE k 0 -1 *)
| PSAdd (v : bytes) | PSRem (v : bytes) | PSMembers
| PHSet (f v : bytes) | PHDel (f : bytes) | PHGetAll
| PFlush.                                        (* FLUSHDB / FLUSHALL, seen from one key *)
Notation PIncr := (PIncrBy 1%Z).

Inductive prep :=
| RVal (v : option bytes)     (* bulk string / nil *)
| ROk
| RInt (z : Z)
| RErrNotInt                  (* "ERR value is not an integer or out of range" *)
| RErrOverflow                (* "ERR increment or decrement would overflow" *)
| RWrongType                  (* "WRONGTYPE Operation against a key holding the wrong kind of value" *)
| RArr (l : list bytes)       (* array of bulk strings; SMEMBERS / HGETALL canonicalised by sorting *)
| ROther (text : bytes).      (* any other reply: never produced by the model *)

Local Open Scope Z_scope.

(* parse_redis_integer (Redis string2ll): an optional '-', then a digit 1-9 followed by
   digits; "0" is the only spelling of zero; the value must fit i64 *)
Fixpoint parse_digits (b : bytes) (acc : Z) : option Z :=
  match b with
  | [] => Some acc
  | d :: t => if (N.leb 48 d && N.leb d 57)%bool
              then parse_digits t (acc * 10 + Z.of_N (d - 48)%N) else None
  end.
Definition I64_MIN : Z := - 9223372036854775808.
Definition I64_MAX : Z := 9223372036854775807.
Definition in_i64 (z : Z) : bool := (I64_MIN <=? z) && (z <=? I64_MAX).
Definition parse_i64 (b : bytes) : option Z :=
  let body (neg : bool) (t : list N) : option Z :=
    match t with
    | d :: _ => if (N.leb 49 d && N.leb d 57)%bool then
                  match parse_digits t 0 with
                  | Some z => let v := if neg then - z else z in if in_i64 v then Some v else None
                  | None => None
                  end
                else None
    | [] => None
    end in
  match b with
  | [48%N] => Some 0
  | 45%N :: t => body true t
  | _ => body false b
  end.

Fixpoint digits_of (fuel : nat) (n : N) (acc : bytes) : bytes :=
  match fuel with
  | O => acc
  | Datatypes.S f =>
      let acc' := (48 + n mod 10)%N :: acc in
      if (n / 10 =? 0)%N then acc' else digits_of f (n / 10)%N acc'
  end.
(* i64::to_string *)
Definition dec_of_Z (z : Z) : bytes :=
  if z <? 0 then 45%N :: digits_of 20 (Z.to_N (- z)) [] else digits_of 20 (Z.to_N z) [].

(* lexicographic order on byte strings (Rust `Vec<u8>: Ord`), insertion sort *)
Fixpoint bytes_leb (a b : bytes) : bool :=
  match a, b with
  | [], _ => true
  | _ :: _, [] => false
  | x :: a', y :: b' => if (x <? y)%N then true else if (y <? x)%N then false else bytes_leb a' b'
  end.
Fixpoint insert_by {A} (le : A -> A -> bool) (x : A) (l : list A) : list A :=
  match l with
  | [] => [x]
  | y :: t => if le x y then x :: l else y :: insert_by le x t
  end.
Definition sort_by {A} (le : A -> A -> bool) (l : list A) : list A := fold_right (insert_by le) [] l.

Definition mem_bytes (v : bytes) (l : list bytes) : bool := existsb (bytes_eqb v) l.
Definition remove_bytes (v : bytes) (l : list bytes) : list bytes := filter (fun x => negb (bytes_eqb v x)) l.
Definition has_field (f : bytes) (l : list (bytes * bytes)) : bool := existsb (fun p => bytes_eqb f (fst p)) l.
Definition del_field (f : bytes) (l : list (bytes * bytes)) : list (bytes * bytes) :=
  filter (fun p => negb (bytes_eqb f (fst p))) l.
Definition set_field (f v : bytes) (l : list (bytes * bytes)) : list (bytes * bytes) :=
  map (fun p => if bytes_eqb f (fst p) then (f, v) else p) l.
Definition klist (l : list bytes) : kst := match l with [] => KNone | _ => KList l end.
Definition kset (l : list bytes) : kst := match l with [] => KNone | _ => KSet l end.
Definition khash (l : list (bytes * bytes)) : kst := match l with [] => KNone | _ => KHash l end.

(* execute_setrange: pad with zero bytes up to offset, overwrite, keep the tail *)
Definition setrange (s : bytes) (off : nat) (v : bytes) : bytes :=
  firstn off (s ++ repeat 0%N (off - length s)) ++ v ++ skipn (off + length v) s.

(* get_direct / set_direct and the generic-path commands of string_ops.rs, list_ops.rs,
   set_ops.rs, hash_ops.rs, key_ops.rs on one key, arm by arm (no expiry) *)
Definition prim_step (st : kst) (p : prim) : kst * prep :=
  match p with
  | PGet => match st with
            | KNone => (st, RVal None) | KStr b => (st, RVal (Some b)) | _ => (st, RWrongType) end
  | PSet v => (KStr v, ROk)
  | PIncrBy z =>
      match st with
      | KNone => (KStr (dec_of_Z z), RInt z)
      | KStr b =>
          match parse_i64 b with
          | None => (st, RErrNotInt)
          | Some n => if in_i64 (n + z) then (KStr (dec_of_Z (n + z)), RInt (n + z))
                      else (st, RErrOverflow)
          end
      | _ => (st, RWrongType)
      end
  | PAppend v =>
      match st with
      | KNone => (KStr v, RInt (Z.of_nat (length v)))
      | KStr b => (KStr (b ++ v), RInt (Z.of_nat (length (b ++ v))))
      | _ => (st, RWrongType)
      end
  | PDel => (KNone, RInt (match st with KNone => 0 | _ => 1 end))
  | PFlush => (KNone, ROk)
  | PSetNx v => match st with KNone => (KStr v, RInt 1) | _ => (st, RInt 0) end
  | PSetOpt v nx xx get =>
      let present := match st with KNone => false | _ => true end in
      let old := match st with KStr b => Some b | _ => None end in
      let wrong := match st with KNone | KStr _ => false | _ => true end in
      if (get && wrong)%bool then (st, RWrongType)
      else if (nx && present)%bool then (st, if get then RVal old else RVal None)
      else if (xx && negb present)%bool then (st, RVal None)
      else (KStr v, if get then RVal old else ROk)
  | PGetSet v =>
      match st with
      | KNone => (KStr v, RVal None) | KStr b => (KStr v, RVal (Some b)) | _ => (st, RWrongType) end
  | PGetDel =>
      match st with
      | KNone => (st, RVal None) | KStr b => (KNone, RVal (Some b)) | _ => (st, RWrongType) end
  | PSetRange off v =>
      match v with
      | [] => match st with
              | KNone => (st, RInt 0) | KStr b => (st, RInt (Z.of_nat (length b))) | _ => (st, RWrongType) end
      | _ => match st with
             | KNone => (KStr (setrange [] off v), RInt (Z.of_nat (length (setrange [] off v))))
             | KStr b => (KStr (setrange b off v), RInt (Z.of_nat (length (setrange b off v))))
             | _ => (st, RWrongType)
             end
      end
  | PExists => (st, RInt (match st with KNone => 0 | _ => 1 end))
  | PLPush v =>
      match st with
      | KNone => (KList [v], RInt 1)
      | KList l => (KList (v :: l), RInt (Z.of_nat (Datatypes.S (length l))))
      | _ => (st, RWrongType)
      end
  | PRPush v =>
      match st with
      | KNone => (KList [v], RInt 1)
      | KList l => (KList (l ++ [v]), RInt (Z.of_nat (Datatypes.S (length l))))
      | _ => (st, RWrongType)
      end
  | PLPop =>
      match st with
      | KNone => (st, RVal None)
      | KList [] => (KNone, RVal None)
      | KList (x :: t) => (klist t, RVal (Some x))
      | _ => (st, RWrongType)
      end
  | PRPop =>
      match st with
      | KNone => (st, RVal None)
      | KList l => match rev l with
                   | [] => (KNone, RVal None)
                   | x :: t => (klist (rev t), RVal (Some x))
                   end
      | _ => (st, RWrongType)
      end
  | PLRange => match st with
               | KNone => (st, RArr []) | KList l => (st, RArr l) | _ => (st, RWrongType) end
  | PSAdd v =>
      match st with
      | KNone => (KSet [v], RInt 1)
      | KSet l => if mem_bytes v l then (st, RInt 0) else (KSet (l ++ [v]), RInt 1)
      | _ => (st, RWrongType)
      end
  | PSRem v =>
      match st with
      | KNone => (st, RInt 0)
      | KSet l => if mem_bytes v l then (kset (remove_bytes v l), RInt 1) else (st, RInt 0)
      | _ => (st, RWrongType)
      end
  | PSMembers => match st with
                 | KNone => (st, RArr []) | KSet l => (st, RArr (sort_by bytes_leb l)) | _ => (st, RWrongType) end
  | PHSet f v =>
      match st with
      | KNone => (KHash [(f, v)], RInt 1)
      | KHash l => if has_field f l then (KHash (set_field f v l), RInt 0) else (KHash (l ++ [(f, v)]), RInt 1)
      | _ => (st, RWrongType)
      end
  | PHDel f =>
      match st with
      | KNone => (st, RInt 0)
      | KHash l => if has_field f l then (khash (del_field f l), RInt 1) else (st, RInt 0)
      | _ => (st, RWrongType)
      end
  | PHGetAll =>
      match st with
      | KNone => (st, RArr [])
      | KHash l => (st, RArr (flat_map (fun p => [fst p; snd p])
                                (sort_by (fun a b => bytes_leb (fst a) (fst b)) l)))
      | _ => (st, RWrongType)
      end
  end.

Definition kstep : kst -> list prim -> kst * list prep := batch_step _ _ _ prim_step.

(* ---- deadlines.  The node evaluates expiry at the caller's clock on every message
   (set_time + evict_expired_keys), and the harness moves the clock only at instants when no
   request is in flight; so time is an explicit operation [CAdv] of the history and the state
   of a key is (value, deadline, now) with the invariant: a present key's deadline is > now. *)
Record tst := TSt { t_val : kst; t_dl : option N; t_now : N }.

Inductive cmd :=
| CP (p : prim)                                  (* a command that does not mention time *)
| CAdv (t : N)                                   (* the clock moves to t (virtual ms) *)
| CSetPx (v : bytes) (ms : N)                    (* SET k v PX ms / EX s (ms = 1000 s) *)
| CSetKeep (v : bytes)                           (* SET k v KEEPTTL *)
| CExpire (ms : N) (nx xx gt lt : bool)          (* PEXPIRE k ms / EXPIRE k s, ms > 0 *)
| CPersist
| CTtl | CPttl
| CGetEx (o : option (option N)).                (* GETEX k | GETEX k PERSIST | GETEX k PX ms *)

(* does the command, applied to this value, clear the deadline (execute_set without KEEPTTL,
   set_direct, execute_setnx on success)?  GETSET, APPEND, INCRBY, SETRANGE and the collection
   commands leave it alone; a key that stops existing loses it in any case *)
Definition clears_dl (p : prim) (v : kst) : bool :=
  let present := match v with KNone => false | _ => true end in
  match p with
  | PSet _ => true
  | PSetNx _ => negb present
  | PSetOpt _ nx xx get =>
      let wrong := match v with KNone | KStr _ => false | _ => true end in
      negb ((get && wrong) || (nx && present) || (xx && negb present))
  | _ => false
  end.

Definition cmd_step (s : tst) (c : cmd) : tst * prep :=
  let '(TSt v dl now) := s in
  let present := match v with KNone => false | _ => true end in
  match c with
  | CP p =>
      let v' := fst (prim_step v p) in
      let dl' := match v' with KNone => None | _ => if clears_dl p v then None else dl end in
      (TSt v' dl' now, snd (prim_step v p))
  | CAdv t =>
      match dl with
      | Some d => if (d <=? t)%N then (TSt KNone None t, ROk) else (TSt v dl t, ROk)
      | None => (TSt v dl t, ROk)
      end
  | CSetPx x ms => (TSt (KStr x) (Some (now + ms)%N) now, ROk)
  | CSetKeep x => (TSt (KStr x) (if present then dl else None) now, ROk)
  | CExpire ms nx xx gt lt =>
      if negb present then (s, RInt 0)
      else
        let new := (now + ms)%N in
        let has := match dl with Some _ => true | None => false end in
        if (nx && has)%bool then (s, RInt 0)
        else if (xx && negb has)%bool then (s, RInt 0)
        else if (gt && match dl with Some d => (new <=? d)%N | None => true end)%bool then (s, RInt 0)
        else if (lt && match dl with Some d => (d <=? new)%N | None => false end)%bool then (s, RInt 0)
        else if (new <=? now)%N then (TSt KNone None now, RInt 1)
        else (TSt v (Some new) now, RInt 1)
  | CPersist =>
      match v, dl with
      | KNone, _ => (s, RInt 0)
      | _, Some _ => (TSt v None now, RInt 1)
      | _, None => (s, RInt 0)
      end
  | CTtl =>
      match v, dl with
      | KNone, _ => (s, RInt (-2))
      | _, None => (s, RInt (-1))
      | _, Some d => let r := (d - now)%N in (s, RInt (Z.of_N (r / 1000 + (r mod 1000 + 500) / 1000)%N))
      end
  | CPttl =>
      match v, dl with
      | KNone, _ => (s, RInt (-2))
      | _, None => (s, RInt (-1))
      | _, Some d => (s, RInt (Z.of_N (d - now)%N))
      end
  | CGetEx o =>
      match v with
      | KNone => (s, RVal None)
      | KStr b =>
          match o with
          | None => (s, RVal (Some b))
          | Some None => (TSt v None now, RVal (Some b))
          | Some (Some ms) => (TSt v (Some (now + ms)%N) now, RVal (Some b))
          end
      | _ => (s, RWrongType)
      end
  end.

Definition tkstep : tst -> list cmd -> tst * list prep := batch_step _ _ _ cmd_step.

Fixpoint bytes_list_eqb (a b : list bytes) : bool :=
  match a, b with
  | [], [] => true
  | x :: a', y :: b' => bytes_eqb x y && bytes_list_eqb a' b'
  | _, _ => false
  end.

Definition prep_eqb (a b : prep) : bool :=
  match a, b with
  | RVal None, RVal None => true
  | RVal (Some x), RVal (Some y) => bytes_eqb x y
  | ROk, ROk => true
  | RInt x, RInt y => x =? y
  | RErrNotInt, RErrNotInt => true
  | RErrOverflow, RErrOverflow => true
  | RWrongType, RWrongType => true
  | RArr x, RArr y => bytes_list_eqb x y
  | ROther x, ROther y => bytes_eqb x y   (* the model never produces ROther *)
  | _, _ => false
  end.
Fixpoint preps_eqb (a b : list prep) : bool :=
  match a, b with
  | [], [] => true
  | x :: a', y :: b' => prep_eqb x y && preps_eqb a' b'
  | _, _ => false
  end.

Notation khist := (list (oprec (list cmd) (list prep))) (only parsing).

Definition lin_check (init : tst) (h : khist) : bool :=
  lin_check_gen _ _ _ tkstep preps_eqb init h.
Definition lin_brute (init : tst) (h : khist) : bool :=
  lin_brute_gen _ _ _ tkstep preps_eqb init h.

(* ------------------------------------------------------------------------------------ *)
(* 5. A small keyed store: the shape of machine the per-key theorem is about             *)
(*    (keys are numbers here; an operation names its key and carries an atomic list)      *)
(* ------------------------------------------------------------------------------------ *)
Notation store := (nat -> kst) (only parsing).
Notation store_op := (nat * list prim)%type (only parsing).

Definition store_step (s : store) (op : store_op) : store * list prep :=
  (upd s (fst op) (fst (kstep (s (fst op)) (snd op))), snd (kstep (s (fst op)) (snd op))).
Definition store_touches (op : store_op) (k : nat) : bool := Nat.eqb (fst op) k.
Definition store_view (s : store) (k : nat) : kst := s k.
Definition store_kstep (k : nat) (v : kst) (op : store_op) : kst * list prep :=
  kstep v (snd op).
Definition store_route (n : nat) (op : store_op) : nat := Nat.modulo (fst op) n.

(* Abstract model of the always-fsync WAL (C09): streaming/wal_store.rs (what a store
   is), streaming/wal.rs (WalWriter, WalRotator::append / rotate / sync, recovery) and
   streaming/wal_actor.rs (handle_message_always, flush_group_commit).

   Level of abstraction: a file is a list of [item]s (header, whole entry, torn tail) plus
   the number of items covered by a successful fsync.  An entry is identified by the id of
   the write that produced it.  Bytes, CRCs and the header layout belong to C10.

   Nondeterminism is explicit:
     - [sched]  : the order in which the actor dequeues Write, TruncateUpTo and Shutdown
                  messages and the points at which it runs flush_group_commit (which
                  writes share a batch);
     - [io]     : the outcome of every I/O call the actor makes, in program order
                  (ok / error with no, partial or full effect);
     - a crash  : the outcome stream ends.  The call that finds the stream empty is never
                  made and the process does nothing afterwards ([s_halt]).
   A crash instant is therefore a prefix of [io] (and of [sched]).  [crash] cuts every
   file to its synced count.

   Two variants of the rotator are modelled: [Legacy] is the code before the repair commit
   (rotate() and the append-error path drop the writer without fsync), [Repaired] is the
   code after it. *)
From Coq Require Import NArith List Bool.
Import ListNotations.
Local Open Scope N_scope.

(* ---------------------------------------------------------------- files and the store *)

Inductive item :=
| IHdr                (* the complete 16-byte file header *)
| IEnt (w : N)        (* the complete encoding of the entry of write [w] *)
| ITorn.              (* a strict, non-empty prefix of a header or of an entry *)

Record file := File { f_items : list item; f_synced : nat }.

(* sequence number -> file; [WalStore::create] of an existing name replaces the file *)
Notation store := (list (N * file)).

Fixpoint st_get (st : store) (s : N) : option file :=
  match st with
  | [] => None
  | (s', f) :: r => if N.eqb s' s then Some f else st_get r s
  end.

Fixpoint st_map (st : store) (s : N) (g : file -> file) : store :=
  match st with
  | [] => []
  | (s', f) :: r => if N.eqb s' s then (s', g f) :: st_map r s g else (s', f) :: st_map r s g
  end.

Definition st_remove (st : store) (s : N) : store :=
  filter (fun p => negb (N.eqb (fst p) s)) st.

Definition st_create (st : store) (s : N) : store := st_remove st s ++ [(s, File [] 0)].

Definition f_push (x : item) (f : file) : file := File (f_items f ++ [x]) (f_synced f).
Definition f_sync (f : file) : file := File (f_items f) (length (f_items f)).

(* What the reader returns for one file image: nothing unless the header is complete,
   then the entries up to the first item that is not a whole entry (WalReader::open,
   WalReader::entries). *)
Fixpoint take_entries (l : list item) : list N :=
  match l with
  | IEnt w :: r => w :: take_entries r
  | _ => []
  end.
Definition read_file (l : list item) : list N :=
  match l with
  | IHdr :: r => take_entries r
  | _ => []
  end.

(* recover_all_entries: files in sequence order (insertion sort on the sequence number) *)
Fixpoint insert_by_seq (p : N * file) (l : store) : store :=
  match l with
  | [] => [p]
  | q :: r => if N.leb (fst p) (fst q) then p :: l else q :: insert_by_seq p r
  end.
Fixpoint sort_by_seq (l : store) : store :=
  match l with
  | [] => []
  | p :: r => insert_by_seq p (sort_by_seq r)
  end.
Definition recover_all (st : store) : list N :=
  flat_map (fun p => read_file (f_items (snd p))) (sort_by_seq st).

(* A crash discards everything not covered by a successful fsync of its file. *)
Definition crash_file (f : file) : file :=
  File (firstn (f_synced f) (f_items f)) (f_synced f).
Definition crash (st : store) : store := map (fun p => (fst p, crash_file (snd p))) st.

(* A crash may also spare some of the unsynced tail: file [s] keeps its first
   [max synced (keep s)] items (whatever survives is on disk after the reboot). *)
Definition crash_file_keep (k : nat) (f : file) : file :=
  let l := firstn (Nat.max (f_synced f) k) (f_items f) in File l (length l).
Definition crash_keep (keep : N -> nat) (st : store) : store :=
  map (fun p => (fst p, crash_file_keep (keep (fst p)) (snd p))) st.

(* ---------------------------------------------------------------- I/O calls, outcomes *)

Inductive effect := ENone | ETorn | EFull.
(* [OErr e]: the call reports an error.  For an append, [e] says what reached the file
   (nothing / a strict prefix / everything).  For create, [ENone] = no file, otherwise an
   empty file exists.  A failed fsync covers nothing. *)
Inductive outcome := OOk | OErr (e : effect).

Inductive call :=
| CSync (s : N)
| CCreate (s : N)
| CHdr (s : N)
| CEnt (s : N) (w : N)
| CDel (s : N).               (* WalStore::delete *)

Inductive log_item :=
| LIo (c : call) (o : outcome)
| LAck (w : N) (ok : bool)
| LTrunc (t : N)              (* the actor starts handle_truncation(t) *)
| LDown.                      (* the response to a Shutdown message has been sent *)

Inductive sched_item :=
| SWrite (w : N) (size : N)   (* the actor dequeues Write w; [size] = encoded entry size *)
| SWriteFF (w : N) (size : N) (* the same for a write_fire_and_forget message (ack_tx = None) *)
| SFlush                      (* the actor runs flush_group_commit (end of a batch) *)
| STruncate (t : N)           (* the actor dequeues TruncateUpTo { streamed_up_to_timestamp: t } *)
| SShutdown.                  (* the actor dequeues Shutdown: final flush_group_commit (the
                                 pending acks get the RESULT of that fsync), then the
                                 response.  Whether the loop then ends (Shutdown taken by
                                 the first recv or by the try_recv drain) or goes on
                                 (taken inside the group-commit wait window, where `return`
                                 only leaves the inner future) is the schedule's business:
                                 in the first case no item follows. *)

(* ---------------------------------------------------------------- rotator and actor *)

Inductive variant := Legacy | Repaired.

Record config := Config {
  c_variant : variant;
  c_max_file_size : N;            (* WalConfig::max_file_size, bytes *)
  c_max_entries : N               (* WalConfig::group_commit_max_entries *)
}.

Definition WAL_HEADER_SIZE : N := 16.

Record writer := Writer { w_seq : N; w_size : N }.

Record state := State {
  s_store : store;
  s_cur : option writer;          (* WalRotator::current_writer *)
  s_seq : N;                      (* WalRotator::current_sequence *)
  s_force : bool;                 (* WalRotator::force_rotate (Repaired only) *)
  s_pending : list N;             (* WalActor::pending_acks, oldest first *)
  s_since : N;                    (* WalActor::entries_since_sync *)
  s_ok : list N;                  (* writes acked Ok, newest first *)
  s_err : list N;                 (* writes acked Err, newest first *)
  s_log : list log_item;          (* newest first *)
  s_io : list outcome;            (* outcomes not yet consumed *)
  s_halt : bool;                  (* crashed *)
  s_over : bool;                  (* a Write was handled with entries_since_sync >= max *)
  s_panic : bool;                 (* the actor task panicked (an expect() failed) *)
  s_released : list N             (* entries of files deleted by TruncateUpTo (history variable) *)
}.

(* WalRotator::new: current_sequence = the largest sequence number among the existing
   files (0 if none), no current writer.  [acked0]/[err0]/[released0] carry the acks and the
   truncated entries of earlier incarnations (history variables). *)
Definition max_seq (st : store) : N := fold_right (fun p m => N.max (fst p) m) 0 st.
Definition init_from (st0 : store) (acked0 err0 released0 : list N) (io : list outcome) : state :=
  State st0 None (max_seq st0) false [] 0 acked0 err0 [] io false false false released0.
Definition init (io : list outcome) : state := init_from [] [] [] [] io.

Definition set_store (st : state) (x : store) : state :=
  State x (s_cur st) (s_seq st) (s_force st) (s_pending st) (s_since st) (s_ok st) (s_err st) (s_log st) (s_io st) (s_halt st) (s_over st) (s_panic st) (s_released st).
Definition set_rot (st : state) (cur : option writer) (seq : N) (force : bool) : state :=
  State (s_store st) cur seq force (s_pending st) (s_since st) (s_ok st) (s_err st) (s_log st) (s_io st) (s_halt st) (s_over st) (s_panic st) (s_released st).
Definition set_halt (st : state) : state :=
  State (s_store st) (s_cur st) (s_seq st) (s_force st) (s_pending st) (s_since st) (s_ok st) (s_err st) (s_log st) (s_io st) true (s_over st) (s_panic st) (s_released st).
Definition set_over (st : state) : state :=
  State (s_store st) (s_cur st) (s_seq st) (s_force st) (s_pending st) (s_since st) (s_ok st) (s_err st) (s_log st) (s_io st) (s_halt st) true (s_panic st) (s_released st).

(* A Rust panic in the actor task: the task is gone (no further step has any effect). *)
Definition set_panic (st : state) : state :=
  State (s_store st) (s_cur st) (s_seq st) (s_force st) (s_pending st) (s_since st) (s_ok st) (s_err st) (s_log st) (s_io st) true (s_over st) true (s_released st).

(* One I/O call: take the next outcome, or crash if there is none. *)
Definition do_io (st : state) (c : call) : option (outcome * state) :=
  match s_io st with
  | [] => None
  | o :: r =>
      Some (o, State (s_store st) (s_cur st) (s_seq st) (s_force st) (s_pending st) (s_since st)
                     (s_ok st) (s_err st) (LIo c o :: s_log st) r (s_halt st) (s_over st) (s_panic st) (s_released st))
  end.

Inductive res := ROk | RErr | RHalt | RPanic.

(* What an append call leaves in the file. *)
Definition push_effect (st : store) (s : N) (whole : item) (o : outcome) : store :=
  match o with
  | OOk | OErr EFull => st_map st s (f_push whole)
  | OErr ETorn => st_map st s (f_push ITorn)
  | OErr ENone => st
  end.

(* WalRotator::rotate.  Repaired: the file being closed is fsynced first; if that fsync
   fails the writer is kept and the error returned.  Legacy: the writer is just dropped. *)
Definition rotate_open (st : state) : state * res :=
  (* current_writer = None; sequence += 1; store.create; WalWriter::new (header) *)
  let s := s_seq st + 1 in
  let st := set_rot st None s false in
  match do_io st (CCreate s) with
  | None => (set_halt st, RHalt)
  | Some (OOk, st) =>
      let st := set_store st (st_create (s_store st) s) in
      match do_io st (CHdr s) with
      | None => (set_halt st, RHalt)
      | Some (OOk, st) =>
          let st := set_store st (push_effect (s_store st) s IHdr OOk) in
          (set_rot st (Some (Writer s WAL_HEADER_SIZE)) s false, ROk)
      | Some (OErr e, st) => (set_store st (push_effect (s_store st) s IHdr (OErr e)), RErr)
      end
  | Some (OErr ENone, st) => (st, RErr)
  | Some (OErr _, st) => (set_store st (st_create (s_store st) s), RErr)
  end.

Definition rotate (v : variant) (st : state) : state * res :=
  match v, s_cur st with
  | Repaired, Some wr =>
      match do_io st (CSync (w_seq wr)) with
      | None => (set_halt st, RHalt)
      | Some (OOk, st) => rotate_open (set_store st (st_map (s_store st) (w_seq wr) f_sync))
      | Some (OErr _, st) => (st, RErr)
      end
  | _, _ => rotate_open st
  end.

(* WalRotator::append *)
Definition rot_append (cfg : config) (st : state) (w size : N) : state * res :=
  let needs_new :=
    match s_cur st with
    | None => true
    | Some wr => s_force st || (c_max_file_size cfg <=? w_size wr)
    end in
  let '(st, r) := if needs_new then rotate (c_variant cfg) st else (st, ROk) in
  match r with
  | ROk =>
      match s_cur st with
      | None => (set_panic st, RPanic)   (* expect("current_writer must exist after rotate") *)
      | Some wr =>
          match do_io st (CEnt (w_seq wr) w) with
          | None => (set_halt st, RHalt)
          | Some (OOk, st) =>
              let st := set_store st (push_effect (s_store st) (w_seq wr) (IEnt w) OOk) in
              (set_rot st (Some (Writer (w_seq wr) (w_size wr + size))) (s_seq st) (s_force st), ROk)
          | Some (OErr e, st) =>
              let st := set_store st (push_effect (s_store st) (w_seq wr) (IEnt w) (OErr e)) in
              match c_variant cfg with
              | Legacy => (set_rot st None (s_seq st) (s_force st), RErr)
              | Repaired => (set_rot st (s_cur st) (s_seq st) true, RErr)
              end
          end
      end
  | _ => (st, r)
  end.

Definition ack (st : state) (w : N) (ok : bool) : state :=
  State (s_store st) (s_cur st) (s_seq st) (s_force st) (s_pending st) (s_since st)
        (if ok then w :: s_ok st else s_ok st) (if ok then s_err st else w :: s_err st)
        (LAck w ok :: s_log st) (s_io st) (s_halt st) (s_over st) (s_panic st) (s_released st).

(* handle_message_always, arm Write; [acked] = the message carries an ack channel
   (write_durable) or not (write_fire_and_forget) *)
Definition handle_write (cfg : config) (st : state) (w size : N) (acked : bool) : state :=
  let st := if c_max_entries cfg <=? s_since st then set_over st else st in
  let '(st, r) := rot_append cfg st w size in
  match r with
  | ROk => State (s_store st) (s_cur st) (s_seq st) (s_force st) (if acked then s_pending st ++ [w] else s_pending st) (s_since st + 1)
                 (s_ok st) (s_err st) (s_log st) (s_io st) (s_halt st) (s_over st) (s_panic st) (s_released st)
  | RErr => if acked then ack st w false else st
  | RHalt | RPanic => st
  end.

Definition resolve_all (st : state) (ok : bool) : state :=
  let st := fold_left (fun a w => ack a w ok) (s_pending st) st in
  State (s_store st) (s_cur st) (s_seq st) (s_force st) [] 0
        (s_ok st) (s_err st) (s_log st) (s_io st) (s_halt st) (s_over st) (s_panic st) (s_released st).

(* flush_group_commit: WalRotator::sync is Ok(()) when there is no current writer *)
Definition flush (st : state) : state :=
  if s_since st =? 0 then st else
  match s_cur st with
  | None => resolve_all st true
  | Some wr =>
      match do_io st (CSync (w_seq wr)) with
      | None => set_halt st
      | Some (OOk, st) => resolve_all (set_store st (st_map (s_store st) (w_seq wr) f_sync)) true
      | Some (OErr _, st) => resolve_all st false
      end
  end.

Definition log_down (st : state) : state :=
  State (s_store st) (s_cur st) (s_seq st) (s_force st) (s_pending st) (s_since st) (s_ok st) (s_err st)
        (LDown :: s_log st) (s_io st) (s_halt st) (s_over st) (s_panic st) (s_released st).

(* handle_message_always, arm Shutdown *)
Definition shutdown (st : state) : state :=
  let st := flush st in
  if s_halt st then st else log_down st.

(* WalRotator::truncate_before, as coded: the listing (names) is taken once, in name
   (= sequence) order; the current writer's file is skipped; a file that cannot be opened (no complete
   header) is skipped; a file whose readable entries all carry a stamp <= t (in
   particular: none) is deleted; a failing delete ends the loop (`?`).  A write is named
   w = stamp * 1024 + serial: [stamp w] is the timestamp its entry carries (stamps may
   repeat and arrive in any order; the serial number makes the name unique). *)
Definition wid (ts serial : N) : N := ts * 1024 + serial.
Definition stamp (w : N) : N := w / 1024.
Definition file_entries (f : file) : option (list N) :=
  match f_items f with
  | IHdr :: r => Some (take_entries r)
  | _ => None
  end.
Definition deletable (t : N) (f : file) : bool :=
  match file_entries f with
  | Some es => forallb (fun w => stamp w <=? t) es
  | None => false
  end.
Definition files_at (st : store) (s : N) : list file :=
  map snd (filter (fun p => N.eqb (fst p) s) st).
(* open_read + WalReader::open + entries() of the file named by sequence s, now *)
Definition deletable_at (t : N) (st : store) (s : N) : bool :=
  match files_at st s with
  | [] => false                       (* open_read fails: skipped *)
  | fs => forallb (deletable t) fs    (* (sequence numbers are unique: one file) *)
  end.
Definition entries_at (st : store) (s : N) : list N :=
  flat_map (fun f => read_file (f_items f)) (files_at st s).
Definition delete_file (st : state) (s : N) : state :=
  State (st_remove (s_store st) s) (s_cur st) (s_seq st) (s_force st) (s_pending st) (s_since st) (s_ok st) (s_err st)
        (s_log st) (s_io st) (s_halt st) (s_over st) (s_panic st) (entries_at (s_store st) s ++ s_released st).

Fixpoint truncate_files (st : state) (t : N) (cur : option N) (names : list N) : state :=
  match names with
  | [] => st
  | s :: r =>
      if match cur with Some c => N.eqb c s | None => false end then truncate_files st t cur r
      else if deletable_at t (s_store st) s then
        match do_io st (CDel s) with
        | None => set_halt st
        | Some (OOk, st) => truncate_files (delete_file st s) t cur r
        | Some (OErr ENone, st) => st
        | Some (OErr _, st) => delete_file st s
        end
      else truncate_files st t cur r
  end.

Definition log_trunc (st : state) (t : N) : state :=
  State (s_store st) (s_cur st) (s_seq st) (s_force st) (s_pending st) (s_since st) (s_ok st) (s_err st)
        (LTrunc t :: s_log st) (s_io st) (s_halt st) (s_over st) (s_panic st) (s_released st).

(* handle_message_always, arm TruncateUpTo *)
Definition truncate (st : state) (t : N) : state :=
  truncate_files (log_trunc st t) t (option_map w_seq (s_cur st)) (map fst (sort_by_seq (s_store st))).

Definition step (cfg : config) (st : state) (ev : sched_item) : state :=
  if s_halt st then st else
  match ev with
  | SWrite w size => handle_write cfg st w size true
  | SWriteFF w size => handle_write cfg st w size false
  | SFlush => flush st
  | SShutdown => shutdown st
  | STruncate t => truncate st t
  end.

Definition run (cfg : config) (sched : list sched_item) (io : list outcome) : state :=
  fold_left (step cfg) sched (init io).

(* Crash, reboot, a new actor on what survived.  Pending acks die with the process. *)
Definition restart (keep : N -> nat) (st : state) (io : list outcome) : state :=
  init_from (crash_keep keep (s_store st)) (s_ok st) (s_err st) (s_released st) io.

(* A history of incarnations: each runs its schedule against its outcome stream (and dies
   where the stream ends, at the latest); [keep] says what the crash before it spared. *)
Notation incarnation := ((N -> nat) * list sched_item * list outcome)%type.
Fixpoint run_hist (cfg : config) (st : state) (hist : list incarnation) : state :=
  match hist with
  | [] => st
  | (keep, sched, io) :: r => run_hist cfg (fold_left (step cfg) sched (restart keep st io)) r
  end.
Definition run_incarnations (cfg : config) (hist : list incarnation) : state :=
  run_hist cfg (init []) hist.

(* What the property speaks about. *)
Definition acked_ok (st : state) : list N := s_ok st.
Definition recovered_after_crash (st : state) : list N := recover_all (crash (s_store st)).

(* The schedule respects group_commit_max_entries: the actor never dequeues a Write while
   entries_since_sync >= group_commit_max_entries (it flushes first). *)
Definition valid_schedule (cfg : config) (sched : list sched_item) (io : list outcome) : bool :=
  negb (s_over (run cfg sched io)).

(* Model of the segment and checkpoint framing: src/streaming/segment.rs (SegmentHeader,
   SegmentFooter, SegmentWriter::finish, SegmentReader::open / validate / deltas + DeltaIterator)
   and src/streaming/checkpoint.rs (CheckpointHeader, CheckpointFooter, CheckpointWriter::write,
   CheckpointReader::open / validate / load).  The WAL entry codec is in Model/Wal.v.
   Definitions only; lemmas are in Proofs/CodecProofs.v.

   - the serialized payloads (bincode of ReplicationDelta / CheckpointData) are opaque byte
     strings; [deser_ok p] abstracts "bincode::deserialize(p) succeeds";
   - the checksum is a section variable [crc] (crc32fast's Hasher fed with several slices is the
     checksum of their concatenation); Corr/C14.v instantiates it with Lib/Crc32.crc32;
   - sizes and magics come from Gen/Consts.v; field offsets are the literals of the Rust code;
   - unchecked indexing is [or_panic]; compression is the crate default (feature off): a
     segment with a non-zero flag and a checkpoint with flag bit 0 set are errors;
   - [usize] is 64 bits. *)
From Coq Require Import String Ascii Arith NArith List Bool.
From RV Require Import Lib.Hex Lib.Bytes Gen.Consts.
Import ListNotations.
Local Open Scope N_scope.

(* error kinds (the harness maps SegmentError / CheckpointError to these) *)
Inductive ekind :=
| ETooShort       (* Io(UnexpectedEof) / InvalidFormat("... too small" | "Missing ...") *)
| EMagic          (* InvalidMagic / InvalidFormat("Invalid magic ...") *)
| EVersion        (* UnsupportedVersion / InvalidFormat("Unsupported version ...") *)
| EChecksum       (* ChecksumMismatch *)
| ECompression    (* UnsupportedCompression / InvalidFormat("Compression not enabled") *)
| EFormat         (* InvalidFormat("Data size mismatch ...") *)
| ESerial         (* Serialization (bincode) *)
| EEmpty          (* SegmentError::Empty *)
| EOutOfFuel.     (* model artefact; unreachable (CodecProofs.rec_loop_fuel_ok) *)
Notation cres := (res ekind) (only parsing).

Definition ekind_eqb (a b : ekind) : bool :=
  match a, b with
  | ETooShort, ETooShort | EMagic, EMagic | EVersion, EVersion | EChecksum, EChecksum
  | ECompression, ECompression | EFormat, EFormat | ESerial, ESerial | EEmpty, EEmpty
  | EOutOfFuel, EOutOfFuel => true
  | _, _ => false
  end.

(* Vec::resize(n, 0) *)
Definition resize0 (n : N) (b : bytes) : bytes :=
  takeN n (b ++ repeat 0 (N.to_nat (n - lenN b))).

Definition U64_MAX : N := 18446744073709551615.

Record seg_hdr := SegHdr { sh_magic : bytes; sh_version : N; sh_flags : N; sh_count : N;
                           sh_min : N; sh_max : N; sh_ck : N }.
Record seg_ftr := SegFtr { sf_ck : N; sf_usize : N; sf_csize : N; sf_magic : bytes }.
Record seg := Seg { sg_hdr : seg_hdr; sg_ftr : seg_ftr; sg_data : bytes }.
Record chk_hdr := ChkHdr { ch_magic : bytes; ch_version : N; ch_flags : N; ch_keys : N;
                           ch_ts : N; ch_last : N; ch_ck : N }.

Section Codec.
  Variable crc : bytes -> N.
  Variable deser_ok : bytes -> bool.

  (* ================= segment ================= *)
  (* SegmentHeader::compute_checksum *)
  Definition seg_hdr_fields (magic : bytes) (version flags count minT maxT : N) : bytes :=
    magic ++ [version; flags] ++ le_enc 4 count ++ le_enc 8 minT ++ le_enc 8 maxT.
  Definition seg_hdr_checksum (h : seg_hdr) : N :=
    crc (seg_hdr_fields (sh_magic h) (sh_version h) (sh_flags h) (sh_count h) (sh_min h) (sh_max h)).
  (* SegmentHeader::to_bytes *)
  Definition seg_hdr_bytes (h : seg_hdr) : bytes :=
    resize0 SEGMENT_HEADER_SIZE
      (seg_hdr_fields (sh_magic h) (sh_version h) (sh_flags h) (sh_count h) (sh_min h) (sh_max h)
       ++ le_enc 4 (sh_ck h)).
  (* SegmentHeader::new (compression None: flag 0) *)
  Definition seg_hdr_new (count minT maxT : N) : seg_hdr :=
    let h0 := SegHdr SEGMENT_MAGIC SEGMENT_VERSION 0 count minT maxT 0 in
    SegHdr SEGMENT_MAGIC SEGMENT_VERSION 0 count minT maxT (seg_hdr_checksum h0).
  (* SegmentHeader::from_bytes *)
  Definition seg_hdr_from_bytes (d : bytes) : cres seg_hdr :=
    if lenN d <? SEGMENT_HEADER_SIZE then Err ETooShort else
    do m <- or_panic (sliceN 0 4 d);
    do v <- or_panic (indexN 4 d);
    do f <- or_panic (indexN 5 d);
    do c <- or_panic (sliceN 6 10 d);
    do mn <- or_panic (sliceN 10 18 d);
    do mx <- or_panic (sliceN 18 26 d);
    do ck <- or_panic (sliceN 26 30 d);
    Ok (SegHdr m v f (le_dec c) (le_dec mn) (le_dec mx) (le_dec ck)).
  (* SegmentHeader::validate *)
  Definition seg_hdr_validate (h : seg_hdr) : cres unit :=
    if negb (bytes_eqb (sh_magic h) SEGMENT_MAGIC) then Err EMagic else
    if negb (sh_version h =? SEGMENT_VERSION) then Err EVersion else
    if negb (sh_ck h =? seg_hdr_checksum h) then Err EChecksum else Ok tt.

  (* SegmentFooter::to_bytes / from_bytes *)
  Definition seg_ftr_bytes (f : seg_ftr) : bytes :=
    le_enc 4 (sf_ck f) ++ le_enc 8 (sf_usize f) ++ le_enc 8 (sf_csize f) ++ sf_magic f.
  Definition seg_ftr_from_bytes (d : bytes) : cres seg_ftr :=
    if lenN d <? SEGMENT_FOOTER_SIZE then Err ETooShort else
    do ck <- or_panic (sliceN 0 4 d);
    do us <- or_panic (sliceN 4 12 d);
    do cs <- or_panic (sliceN 12 20 d);
    do m <- or_panic (sliceN 20 24 d);
    if negb (bytes_eqb m SEGMENT_FOOTER_MAGIC) then Err EMagic else
    Ok (SegFtr (le_dec ck) (le_dec us) (le_dec cs) m).

  (* SegmentWriter: write_delta* then finish.  Input: (delta.value.timestamp.time, bincode bytes)
     per delta, in write order. *)
  Definition seg_record (p : bytes) : bytes := le_enc 4 (lenN p) ++ p.
  Definition seg_records_bytes (recs : list (N * bytes)) : bytes :=
    concat (map (fun r => seg_record (snd r)) recs).
  Definition seg_write (recs : list (N * bytes)) : cres bytes :=
    match recs with
    | [] => Err EEmpty
    | _ =>
        let rd := seg_records_bytes recs in
        let minT := fold_left N.min (map fst recs) U64_MAX in
        let maxT := fold_left N.max (map fst recs) 0 in
        let h := seg_hdr_new (lenN recs mod 4294967296) minT maxT in
        let f := SegFtr (crc rd) (lenN rd) (lenN rd) SEGMENT_FOOTER_MAGIC in
        Ok (seg_hdr_bytes h ++ rd ++ seg_ftr_bytes f)
    end.

  (* SegmentReader::open *)
  Definition seg_open (img : bytes) : cres seg :=
    if lenN img <? SEGMENT_HEADER_SIZE + SEGMENT_FOOTER_SIZE then Err ETooShort else
    do hb <- or_panic (sliceN 0 SEGMENT_HEADER_SIZE img);
    do h <- seg_hdr_from_bytes hb;
    do _ <- seg_hdr_validate h;
    let footer_start := lenN img - SEGMENT_FOOTER_SIZE in
    do fb <- or_panic (sliceN footer_start (lenN img) img);
    do ft <- seg_ftr_from_bytes fb;
    if negb (sh_flags h =? 0) then Err ECompression else
    do rd <- or_panic (sliceN SEGMENT_HEADER_SIZE footer_start img);
    Ok (Seg h ft rd).

  (* SegmentReader::validate *)
  Definition seg_validate (s : seg) : cres unit :=
    if crc (sg_data s) =? sf_ck (sg_ftr s) then Ok tt else Err EChecksum.

  (* SegmentReader::deltas() collected into a Result<Vec<_>, _> (read_all): the iterator
     (DeltaIterator::next) is run until it returns None or the first Err. *)
  Fixpoint rec_loop (fuel : nat) (remaining : N) (d : bytes) : cres (list bytes) :=
    match fuel with
    | O => Err EOutOfFuel
    | S f =>
        if remaining =? 0 then Ok [] else
        match d with
        | [] => Err ETooShort   (* data exhausted although the header promises more records
                                   (since repo commit 929bfe5; before it: a silent end) *)
        | _ =>
            if lenN d <? 4 then Err ETooShort else
            do lb <- or_panic (sliceN 0 4 d);
            let len := le_dec lb in
            let d1 := dropN 4 d in
            if lenN d1 <? len then Err ETooShort else
            let p := takeN len d1 in
            if deser_ok p
            then do r <- rec_loop f (remaining - 1) (dropN len d1); Ok (p :: r)
            else Err ESerial
        end
    end.
  Definition seg_records (s : seg) : cres (list bytes) :=
    rec_loop (S (length (sg_data s))) (sh_count (sg_hdr s)) (sg_data s).

  (* the checked path used by recovery.rs and compaction.rs: open, validate, read all *)
  Definition seg_read (img : bytes) : cres (seg_hdr * list bytes) :=
    do s <- seg_open img; do _ <- seg_validate s; do ps <- seg_records s; Ok (sg_hdr s, ps).
  (* open + read all, without validate (what SegmentReader also allows) *)
  Definition seg_read_unchecked (img : bytes) : cres (seg_hdr * list bytes) :=
    do s <- seg_open img; do ps <- seg_records s; Ok (sg_hdr s, ps).

  (* ================= checkpoint ================= *)
  Definition chk_hdr_fields (magic : bytes) (version flags keys ts last : N) : bytes :=
    magic ++ [version; flags] ++ le_enc 8 keys ++ le_enc 8 ts ++ le_enc 8 last.
  Definition chk_hdr_checksum (h : chk_hdr) : N :=
    crc (chk_hdr_fields (ch_magic h) (ch_version h) (ch_flags h) (ch_keys h) (ch_ts h) (ch_last h)).
  (* CheckpointHeader::write_to: 4 + 1 + 1 + 2 pad + 8 + 8 + 8 + 12 reserved + 4 = 48 bytes *)
  Definition chk_hdr_bytes (h : chk_hdr) : bytes :=
    ch_magic h ++ [ch_version h; ch_flags h] ++ [0; 0] ++ le_enc 8 (ch_keys h) ++ le_enc 8 (ch_ts h)
    ++ le_enc 8 (ch_last h) ++ repeat 0 12 ++ le_enc 4 (ch_ck h).
  Definition chk_hdr_new (keys ts last : N) : chk_hdr :=
    let h0 := ChkHdr CHECKPOINT_MAGIC CHECKPOINT_VERSION 0 keys ts last 0 in
    ChkHdr CHECKPOINT_MAGIC CHECKPOINT_VERSION 0 keys ts last (chk_hdr_checksum h0).
  (* CheckpointHeader::read_from on a buffer of CHECKPOINT_HEADER_SIZE bytes *)
  Definition chk_hdr_from_buf (b : bytes) : cres chk_hdr :=
    do m <- or_panic (sliceN 0 4 b);
    do v <- or_panic (indexN 4 b);
    do f <- or_panic (indexN 5 b);
    do k <- or_panic (sliceN 8 16 b);
    do t <- or_panic (sliceN 16 24 b);
    do l <- or_panic (sliceN 24 32 b);
    do c <- or_panic (sliceN 44 48 b);
    Ok (ChkHdr m v f (le_dec k) (le_dec t) (le_dec l) (le_dec c)).
  Definition chk_hdr_validate (h : chk_hdr) : cres unit :=
    if negb (bytes_eqb (ch_magic h) CHECKPOINT_MAGIC) then Err EMagic else
    if negb (ch_version h =? CHECKPOINT_VERSION) then Err EVersion else
    if negb (ch_ck h =? chk_hdr_checksum h) then Err EChecksum else Ok tt.

  (* CheckpointFooter::new + write_to *)
  Definition chk_ftr_bytes (data_ck data_size : N) : bytes :=
    le_enc 4 data_ck ++ le_enc 8 data_size ++ le_enc 4 (crc (le_enc 4 data_ck ++ le_enc 8 data_size)).

  (* CheckpointWriter::write: [keys] = state.len(), [data] = bincode(CheckpointData) *)
  Definition chk_write (keys ts last : N) (data : bytes) : bytes :=
    chk_hdr_bytes (chk_hdr_new keys ts last) ++ le_enc 4 (lenN data) ++ data
    ++ chk_ftr_bytes (crc data) (lenN data).

  (* CheckpointReader::open *)
  Definition chk_open (img : bytes) : cres chk_hdr :=
    if lenN img <? CHECKPOINT_HEADER_SIZE then Err ETooShort else
    do b <- or_panic (sliceN 0 CHECKPOINT_HEADER_SIZE img);     (* read_exact into the buffer *)
    do h <- chk_hdr_from_buf b;
    do _ <- chk_hdr_validate h;
    Ok h.

  (* CheckpointReader::validate *)
  Definition chk_validate (img : bytes) (h : chk_hdr) : cres unit :=
    let off := CHECKPOINT_HEADER_SIZE in
    if lenN img <? off + 4 then Err ETooShort else
    do lb <- or_panic (sliceN off (off + 4) img);
    let data_start := off + 4 in
    let data_end := data_start + le_dec lb in
    if lenN img <? data_end + CHECKPOINT_FOOTER_SIZE then Err ETooShort else
    do fb <- or_panic (sliceN data_end (lenN img) img);
    (* CheckpointFooter::read_from: read_exact 4, 8, 4 *)
    if lenN fb <? 16 then Err ETooShort else
    let dck := le_dec (takeN 4 fb) in
    let dsz := le_dec (takeN 8 (dropN 4 fb)) in
    let fck := le_dec (takeN 4 (dropN 12 fb)) in
    if negb (fck =? crc (le_enc 4 dck ++ le_enc 8 dsz)) then Err EChecksum else
    do cd <- or_panic (sliceN data_start data_end img);
    if N.odd (ch_flags h) then Err ECompression else
    if negb (crc cd =? dck) then Err EChecksum else
    if negb (lenN cd =? dsz) then Err EFormat else Ok tt.

  (* CheckpointReader::load: same two bounds checks as validate (since repo commit 54aabd4;
     before it the indexing was unchecked and a short image panicked) *)
  Definition chk_load (img : bytes) (h : chk_hdr) : cres bytes :=
    let off := CHECKPOINT_HEADER_SIZE in
    if lenN img <? off + 4 then Err ETooShort else
    do lb <- or_panic (sliceN off (off + 4) img);
    let data_start := off + 4 in
    let data_end := data_start + le_dec lb in
    if lenN img <? data_end then Err ETooShort else
    do cd <- or_panic (sliceN data_start data_end img);
    if N.odd (ch_flags h) then Err ECompression else
    if deser_ok cd then Ok cd else Err ESerial.

  (* the checked path (recovery.rs): open, validate, load *)
  Definition chk_read (img : bytes) : cres (chk_hdr * bytes) :=
    do h <- chk_open img; do _ <- chk_validate img h; do d <- chk_load img h; Ok (h, d).
  (* open + load without validate *)
  Definition chk_read_unchecked (img : bytes) : cres (chk_hdr * bytes) :=
    do h <- chk_open img; do d <- chk_load img h; Ok (h, d).
End Codec.

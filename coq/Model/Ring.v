(* Model of the consistent-hash ring and the selective gossip router (property C19).

   Transcribes, arm by arm:
     src/replication/hash_ring.rs      HashRing::{new, add_node, remove_node, get_replicas,
                                       get_replicas_with_rf, get_gossip_targets, ...}
     src/replication/gossip_router.rs  GossipRouter::{new, from_config, route_deltas,
                                       route_selective, route_broadcast}
     src/replication/gossip.rs         GossipState::{queue_deltas, enforce_outbound_capacity}
   (src/production/adaptive_replication.rs only chooses the rf handed to
   get_replicas_with_rf; it is covered through that argument.)

   Definitions only.  Everything is stated for an arbitrary position function of virtual
   nodes [vpos] and of keys [kpos] (section variables); the SipHash-1-3 instances used by
   the code are given after the section and are what the correspondence executes.

   None of the transcribed functions has a panic site: the only indexing is
   [ring[idx % ring_len]] with [ring_len > 0], and the counters cannot overflow. *)
From Coq Require Import NArith List Bool Arith.
From RV Require Import Lib.Hex Lib.SipHash Lib.SipFast.
Import ListNotations.
Local Open Scope N_scope.

(* ReplicaId(u64) = N; VirtualNode = (physical node, virtual index);
   a ring entry = (position, virtual node) *)
Notation vnode := (N * N)%type (only parsing).
Notation entry := (N * (N * N))%type (only parsing).

Definition e_pos (e : entry) : N := fst e.
Definition e_node (e : entry) : N := fst (snd e).

Definition mem (x : N) (l : list N) : bool := existsb (N.eqb x) l.

(* 0 .. n-1 as a list (the range [0..self.virtual_nodes_per_physical], [enumerate()]) *)
Definition nseq (n : N) : list N := map N.of_nat (seq 0 (N.to_nat n)).

(* HashRing { ring, virtual_nodes_per_physical, replication_factor, physical_nodes, version } *)
Record ring := Ring {
  r_ring : list entry;
  r_vn : N;
  r_rf : N;
  r_nodes : list N;
  r_version : N }.

(* a replication delta, as far as routing is concerned: its key (bytes), an opaque payload
   identifier, and [source_replica] - the replica the update originated on, which need not
   be the node that is routing it (relayed / forwarded deltas).  Routing reads the key
   only; the other two fields are carried along untouched. *)
Notation delta := (list N * (N * N))%type (only parsing).
Definition d_key (d : delta) : list N := fst d.
Definition d_tag (d : delta) : N := fst (snd d).
Definition d_origin (d : delta) : N := snd (snd d).

(* RoutingTable = HashMap<ReplicaId, Vec<ReplicationDelta>>: association list in order of
   first insertion; the HashMap's own iteration order is an explicit argument wherever
   the code iterates the table (queue_deltas). *)
Notation table := (list (N * list (list N * (N * N))))%type (only parsing).

Fixpoint tbl_push (t : N) (d : delta) (tbl : table) : table :=   (* entry(t).or_default().push(d) *)
  match tbl with
  | [] => [(t, [d])]
  | (t', ds) :: r => if t' =? t then (t', ds ++ [d]) :: r else (t', ds) :: tbl_push t d r
  end.

Fixpoint tbl_get (tbl : table) (t : N) : option (list delta) :=
  match tbl with
  | [] => None
  | (t', ds) :: r => if t' =? t then Some ds else tbl_get r t
  end.

(* what target [t] is handed by a routing table *)
Definition deliveries (tbl : table) (t : N) : list delta :=
  match tbl_get tbl t with Some ds => ds | None => [] end.

(* peer_addresses : HashMap<ReplicaId, String>; an address is represented by the index of
   the configured peer string.  [insert] replaces the value of an existing key. *)
Notation addrmap := (list (N * N))%type (only parsing).
Fixpoint pa_insert (k a : N) (m : addrmap) : addrmap :=
  match m with
  | [] => [(k, a)]
  | (k', a') :: r => if k' =? k then (k', a) :: r else (k', a') :: pa_insert k a r
  end.

(* GossipMessage (the two delta carriers and the heartbeat, i.e. everything GossipState
   itself queues) and RoutedMessage *)
Inductive gmsg :=
| DeltaBatch (src : N) (ds : list delta) (epoch : N)
| TargetedDelta (src tgt : N) (ds : list delta) (epoch : N)
| Heartbeat (src : N) (epoch : N).
Notation routed := (option N * gmsg)%type (only parsing).

Definition MAX_OUTBOUND_QUEUE : N := 10000.

Section RingModel.
  (* hash_virtual_node(node, index) and hash_key(key) *)
  Variable vpos : N -> N -> N.
  Variable kpos : list N -> N.

  (* ---- hash_ring.rs:88-105  add_node ------------------------------------------------ *)

  (* [self.ring.sort_by_key(|(pos, _)| *pos)]: slice::sort_by_key is a STABLE sort.  It is
     modelled by insertion sort in which an element is placed in front of the later
     elements with an equal key, which is stable by construction. *)
  Fixpoint insert (e : entry) (l : list entry) : list entry :=
    match l with
    | [] => [e]
    | y :: l' => if e_pos e <=? e_pos y then e :: y :: l' else y :: insert e l'
    end.
  Definition sort_by_pos (l : list entry) : list entry := fold_right insert [] l.

  (* the vnodes pushed for one physical node: indices 0..vn in order *)
  Definition vnodes_of (vn : N) (x : N) : list entry :=
    map (fun i => (vpos x i, (x, i))) (nseq vn).

  Definition add_node (R : ring) (x : N) : ring :=
    if mem x (r_nodes R) then R                                   (* already in ring *)
    else Ring (sort_by_pos (r_ring R ++ vnodes_of (r_vn R) x))
              (r_vn R) (r_rf R) (r_nodes R ++ [x]) (r_version R + 1).

  (* ---- hash_ring.rs:108-112  remove_node -------------------------------------------- *)
  Definition remove_node (R : ring) (x : N) : ring :=
    Ring (filter (fun e => negb (e_node e =? x)) (r_ring R))
         (r_vn R) (r_rf R)
         (filter (fun n => negb (n =? x)) (r_nodes R))
         (r_version R + 1).                                       (* also when x is absent *)

  (* ---- hash_ring.rs:47-65  new -------------------------------------------------------- *)
  Definition ring_empty (vn rf : N) : ring := Ring [] vn rf [] 0.
  Definition ring_new (ns : list N) (vn rf : N) : ring := fold_left add_node ns (ring_empty vn rf).

  (* every virtual node of the members [ns], and the hypothesis of the placement theorems:
     their positions are pairwise distinct (no two virtual nodes collide on the ring) *)
  Definition all_vnodes (vn : N) (ns : list N) : list entry := flat_map (vnodes_of vn) ns.
  Definition positions_distinct (ns : list N) (vn : N) : Prop :=
    NoDup (map e_pos (all_vnodes vn ns)).

  (* membership changes *)
  Inductive op := OpAdd (x : N) | OpRem (x : N).
  Definition apply_op (R : ring) (o : op) : ring :=
    match o with OpAdd x => add_node R x | OpRem x => remove_node R x end.
  Definition run (R : ring) (ops : list op) : ring := fold_left apply_op ops R.

  (* ---- hash_ring.rs:123-156  get_replicas_with_rf ------------------------------------ *)

  (* [self.ring.binary_search_by_key(&key_pos, |(pos, _)| *pos)] on the sorted ring:
       Err(i): i = number of entries with position < key_pos (the partition point);
       Ok(i):  SOME index i whose position equals key_pos - the standard library promises
               no particular one when several entries are equal.  That choice is the
               argument [o]: among the [c] equal entries, which start at [lo], the search
               returns [lo + o mod c].  When the positions on the ring are pairwise
               distinct, c <= 1 and the choice is unique (RingProofs.bsearch_oracle_irrelevant);
               ties need a 64-bit SipHash collision between two virtual nodes. *)
  Fixpoint lower (l : list entry) (kp : N) : nat :=     (* length of the prefix with pos < kp *)
    match l with
    | [] => O
    | e :: l' => if e_pos e <? kp then S (lower l' kp) else O
    end.
  Fixpoint run_eq (l : list entry) (kp : N) : nat :=    (* length of the prefix with pos = kp *)
    match l with
    | [] => O
    | e :: l' => if e_pos e =? kp then S (run_eq l' kp) else O
    end.
  Definition bsearch (l : list entry) (kp : N) (o : nat) : nat :=
    let lo := lower l kp in
    let c := run_eq (skipn lo l) kp in
    match c with
    | O => Nat.modulo lo (length l)                      (* Err(i) => i % self.ring.len() *)
    | S _ => (lo + Nat.modulo o c)%nat                   (* Ok(i) => i *)
    end.

  (* the ring read clockwise from index s, once around: ring[(s + j) % len], j = 0..len-1 *)
  Definition rot {A} (s : nat) (l : list A) : list A := skipn s l ++ firstn s l.

  (* the while loop: [l] is what is left of one full turn (running out of it is the
     [idx - start_idx >= ring_len] break), [n] = rf.min(physical_nodes.len()),
     [nn] = physical_nodes.len(); [seen] holds exactly the elements of [replicas], so
     seen.len() = replicas.len(). *)
  Fixpoint walk (l : list entry) (n nn : nat) (acc : list N) : list N :=
    match l with
    | [] => acc
    | e :: l' =>
        if (length acc <? n)%nat && (length acc <? nn)%nat
        then walk l' n nn (if mem (e_node e) acc then acc else acc ++ [e_node e])
        else acc
    end.

  Definition replicas_at (R : ring) (kp : N) (rf : N) (o : nat) : list N :=
    match r_ring R with
    | [] => []                                           (* if self.ring.is_empty() *)
    | _ =>
        let nn := length (r_nodes R) in
        let n := N.to_nat (N.min rf (N.of_nat nn)) in
        walk (rot (bsearch (r_ring R) kp o) (r_ring R)) n nn []
    end.

  Definition get_replicas_with_rf (R : ring) (key : list N) (rf : N) (o : nat) : list N :=
    replicas_at R (kpos key) rf o.
  Definition get_replicas (R : ring) (key : list N) (o : nat) : list N :=
    get_replicas_with_rf R key (r_rf R) o.
  Definition is_responsible (R : ring) (key : list N) (x : N) (o : nat) : bool :=
    mem x (get_replicas R key o).
  Definition get_primary (R : ring) (key : list N) (o : nat) : option N :=
    hd_error (get_replicas R key o).
  (* hash_ring.rs:174-179 *)
  Definition get_gossip_targets (R : ring) (key : list N) (sender : N) (o : nat) : list N :=
    filter (fun r => negb (r =? sender)) (get_replicas R key o).

  (* ---- gossip_router.rs ------------------------------------------------------------- *)
  Record router := Router {
    gr_ring : ring;
    gr_me : N;
    gr_peers : list (N * N);      (* peer_addresses *)
    gr_selective : bool }.

  Definition has_peer (r : router) (t : N) : bool := mem t (map fst (gr_peers r)).

  (* route_selective (99-116); [os kp] is the binary-search choice for key position kp *)
  Definition route_selective (r : router) (os : N -> nat) (deltas : list delta) : table :=
    fold_left
      (fun tbl d =>
         fold_left (fun tbl t => if has_peer r t then tbl_push t d tbl else tbl)
                   (get_gossip_targets (gr_ring r) (d_key d) (gr_me r) (os (kpos (d_key d))))
                   tbl)   (* excludes the SENDER gr_me, not d_origin *)
      deltas [].

  (* route_broadcast (119-129): one entry per known peer other than self, each with all
     deltas (also when there are none) *)
  Definition route_broadcast (r : router) (deltas : list delta) : table :=
    map (fun p => (fst p, deltas)) (filter (fun p => negb (fst p =? gr_me r)) (gr_peers r)).

  Definition route_deltas (r : router) (os : N -> nat) (deltas : list delta) : table :=
    if gr_selective r then route_selective r os deltas else route_broadcast r deltas.

  (* vocabulary of the routing theorems -------------------------------------------------
     the router knows an address for every member of the ring other than itself *)
  Definition knows_members (r : router) : Prop :=
    forall x, In x (r_nodes (gr_ring r)) -> x <> gr_me r -> has_peer r x = true.
  (* the deltas owed to node t by sender [gr_me r]: those whose replica list contains t,
     none if t is the sender itself *)
  Definition owed (r : router) (os : N -> nat) (deltas : list delta) (t : N) : list delta :=
    filter (fun d => mem t (get_replicas (gr_ring r) (d_key d) (os (kpos (d_key d)))) &&
                     negb (t =? gr_me r)) deltas.

  (* from_config (62-84): the i-th configured peer address gets the id
       i + 2  if i + 1 >= replica_id   ("skip our own id")
       i + 1  otherwise,
     i.e. ids 1, 2, 3, ... in configuration order with the own id left out
     (as repaired by /repo commit c7b807a; before it the test was [i >= replica_id]). *)
  Definition peer_id_of (rid i : N) : N := if rid <=? i + 1 then i + 2 else i + 1.
  Definition from_config_peers (rid npeers : N) : list (N * N) :=
    fold_left (fun m i => pa_insert (peer_id_of rid i) i m) (nseq npeers) [].
  (* uses_selective_gossip = selective_gossip && partitioned_mode && enabled *)
  Definition from_config (rid npeers : N) (selective partitioned enabled : bool) (R : ring) : router :=
    Router R rid (from_config_peers rid npeers) (selective && partitioned && enabled).

  (* ---- gossip.rs:228-281  queue_deltas ---------------------------------------------- *)
  Record gstate := GState {
    g_id : N;
    g_epoch : N;
    g_queue : list routed;
    g_router : option router }.

  (* drop the oldest messages beyond MAX_OUTBOUND_QUEUE *)
  Definition enforce_capacity (q : list routed) : list routed :=
    let len := N.of_nat (length q) in
    if MAX_OUTBOUND_QUEUE <? len then skipn (N.to_nat (len - MAX_OUTBOUND_QUEUE)) q else q.

  Definition is_nil {A} (l : list A) : bool := match l with [] => true | _ => false end.

  (* [ord] is the iteration order of the routing table (a HashMap): any permutation *)
  Definition queue_deltas (ord : table -> table) (os : N -> nat) (g : gstate) (deltas : list delta) : gstate :=
    match deltas with
    | [] => g
    | _ =>
      let broadcast :=
        GState (g_id g) (g_epoch g)
               (enforce_capacity (g_queue g ++ [(None, DeltaBatch (g_id g) deltas (g_epoch g))]))
               (g_router g) in
      match g_router g with
      | Some r =>
          if gr_selective r then
            let tbl := route_deltas r os deltas in
            let msgs := map (fun p => (Some (fst p), TargetedDelta (g_id g) (fst p) (snd p) (g_epoch g)))
                            (filter (fun p => negb (is_nil (snd p))) (ord tbl)) in
            GState (g_id g) (g_epoch g) (enforce_capacity (g_queue g ++ msgs)) (g_router g)
          else broadcast
      | None => broadcast
      end
    end.

  (* gossip.rs: queue_deltas_broadcast (ignores the router; nothing for an empty batch),
     queue_heartbeat, drain_outbound (mem::take), set_router *)
  Definition queue_deltas_broadcast (g : gstate) (deltas : list delta) : gstate :=
    match deltas with
    | [] => g
    | _ => GState (g_id g) (g_epoch g)
                  (enforce_capacity (g_queue g ++ [(None, DeltaBatch (g_id g) deltas (g_epoch g))]))
                  (g_router g)
    end.
  Definition queue_heartbeat (g : gstate) : gstate :=
    GState (g_id g) (g_epoch g)
           (enforce_capacity (g_queue g ++ [(None, Heartbeat (g_id g) (g_epoch g))])) (g_router g).
  Definition drain_outbound (g : gstate) : list routed * gstate :=
    (g_queue g, GState (g_id g) (g_epoch g) [] (g_router g)).
  Definition set_router (g : gstate) (r : router) : gstate :=
    GState (g_id g) (g_epoch g) (g_queue g) (Some r).

  (* gossip_router.rs:177-184  update_peer / remove_peer (dynamic membership) *)
  Definition update_peer (r : router) (k a : N) : router :=
    Router (gr_ring r) (gr_me r) (pa_insert k a (gr_peers r)) (gr_selective r).
  Definition remove_peer (r : router) (k : N) : router :=
    Router (gr_ring r) (gr_me r) (filter (fun p => negb (fst p =? k)) (gr_peers r)) (gr_selective r).

  Definition advance_epoch (g : gstate) : gstate :=
    GState (g_id g) (if g_epoch g =? 18446744073709551615 then g_epoch g else g_epoch g + 1)
           (g_queue g) (g_router g).
End RingModel.

(* ---- the position functions of the code (std DefaultHasher = SipHash-1-3, keys 0,0) --- *)
(* hash_virtual_node: [node.0.hash(h); virtual_index.hash(h)] feeds the u64 and then the u32
   as little-endian bytes to one hasher *)
Definition sip_vpos (x i : N) : N := sip13 (le64 x ++ le32 i).
(* hash_key: [key.hash(h)] for a str feeds the bytes and then 0xFF *)
Definition sip_kpos (key : list N) : N := hash_str key.

(* the same two functions evaluated with Lib/SipFast.v (proved equal to [sip13] there;
   RingProofs.fast_vpos_eq / fast_kpos_eq); the correspondence executes these *)
Definition fast_vpos (x i : N) : N := sip13f (le64 x ++ le32 i).
Definition fast_kpos (key : list N) : N := sip13f (key ++ [255]).

(* Model of the multi-node simulation kernel of src/simulator/multi_node.rs:
   MultiNodeSimulation::{gossip_round, send_deltas, deliver_messages, can_communicate,
   partition, heal_partition (without the anti-entropy hook), advance_time_ms} and of
   DeterministicRng::{gen_bool, gen_range} (src/simulator/rng.rs).  Definitions only.

   What the kernel is generic in (section variables, universally quantified after [End]):
     D            a replication delta; the kernel only moves deltas around
     NS           the state of one node
     apply_deltas SimulatedNode::apply_remote_deltas
     draw         the seeded ChaCha8 stream: [draw i] is the i-th [next_u64()] of
                  [DeterministicRng::new(seed)]  (the seed IS this stream)
     lost         [gen_bool(packet_loss_rate)] as a predicate on the raw draw
                  ([r as f64 / u64::MAX as f64 < p])

   The hidden input: [router.route_deltas] returns a [HashMap<ReplicaId, Vec<delta>>]; the
   order in which a HashMap is iterated depends on per-process (and per-map) hash keys.  It is
   the explicit oracle [o]: the k-th table iterated in a run is seen as [o k tbl], some
   permutation of the table's entries [tbl].

   [fixed = false] is the loop as it was before the repair ("for (target, deltas) in
   routing_table"): the entries are visited in oracle order while every visit consumes RNG
   draws.  [fixed = true] is the repaired loop: the entries are collected and sorted by
   target id first.

   Not modelled (stated, not hidden): [message_delay_range.1 + 1] overflows for
   [u64::MAX]; virtual time is unbounded [N]; anti-entropy on heal (the kernel cases run with
   [auto_anti_entropy = false]).  The two panics of the transcribed code - replica id 0 in
   a routing table ([target.0 as usize - 1]) and a message for a node index out of range
   ([self.nodes[msg.to]]) - set the flag [s_panic]; once it is set the Rust process has
   panicked and the rest of the state is meaningless. *)
From Coq Require Import List NArith Bool.
Import ListNotations.
Local Open Scope N_scope.

Section Kernel.
  Variable D : Type.
  Variable NS : Type.
  Variable apply_deltas : NS -> list D -> NS.
  Variable draw : nat -> N.
  Variable lost : N -> bool.

  (* InFlightMessage *)
  Record msg := Msg { m_from : N; m_to : N; m_deltas : list D; m_time : N }.

  (* the fields of MultiNodeSimulation the kernel reads or writes; [s_pos] = number of
     [next_u64()] calls made so far, [s_iters] = number of routing tables iterated so far *)
  Record sim := Sim {
    s_nodes : list NS;
    s_now : N;
    s_pos : nat;
    s_queue : list msg;
    s_parts : list (N * N);
    s_dmin : N;
    s_dmax : N;
    s_iters : nat;
    s_panic : bool
  }.

  Definition set_nodes (s : sim) x := Sim x (s_now s) (s_pos s) (s_queue s) (s_parts s) (s_dmin s) (s_dmax s) (s_iters s) (s_panic s).
  Definition set_now (s : sim) x := Sim (s_nodes s) x (s_pos s) (s_queue s) (s_parts s) (s_dmin s) (s_dmax s) (s_iters s) (s_panic s).
  Definition set_pos (s : sim) x := Sim (s_nodes s) (s_now s) x (s_queue s) (s_parts s) (s_dmin s) (s_dmax s) (s_iters s) (s_panic s).
  Definition set_queue (s : sim) x := Sim (s_nodes s) (s_now s) (s_pos s) x (s_parts s) (s_dmin s) (s_dmax s) (s_iters s) (s_panic s).
  Definition set_parts (s : sim) x := Sim (s_nodes s) (s_now s) (s_pos s) (s_queue s) x (s_dmin s) (s_dmax s) (s_iters s) (s_panic s).
  Definition set_iters (s : sim) x := Sim (s_nodes s) (s_now s) (s_pos s) (s_queue s) (s_parts s) (s_dmin s) (s_dmax s) x (s_panic s).
  Definition set_panic (s : sim) := Sim (s_nodes s) (s_now s) (s_pos s) (s_queue s) (s_parts s) (s_dmin s) (s_dmax s) (s_iters s) true.

  Definition sim_init (nodes : list NS) (dmin dmax : N) : sim :=
    Sim nodes 0 O [] [] dmin dmax O false.

  (* ---- partitions: HashSet<(usize, usize)> of normalised pairs ---- *)
  Definition norm_pair (a b : N) : N * N := if a <? b then (a, b) else (b, a).
  Definition pair_eqb (p q : N * N) : bool := (fst p =? fst q) && (snd p =? snd q).
  Definition can_comm (parts : list (N * N)) (a b : N) : bool :=
    negb (existsb (pair_eqb (norm_pair a b)) parts).
  Definition part_insert (parts : list (N * N)) (a b : N) : list (N * N) :=
    if existsb (pair_eqb (norm_pair a b)) parts then parts else parts ++ [norm_pair a b].
  Definition part_remove (parts : list (N * N)) (a b : N) : list (N * N) :=
    filter (fun p => negb (pair_eqb (norm_pair a b) p)) parts.

  (* ---- DeterministicRng ---- *)
  (* gen_range(min, max): no draw when min >= max *)
  Definition gen_range (min max : N) (pos : nat) : N * nat :=
    if max <=? min then (min, pos) else (min + (draw pos) mod (max - min), S pos).

  (* ---- send_deltas ---- *)
  Definition send (s : sim) (from to : N) (ds : list D) : sim :=
    if negb (can_comm (s_parts s) from to) then s
    else
      let r := draw (s_pos s) in
      let s1 := set_pos s (S (s_pos s)) in
      if lost r then s1
      else
        let '(d, p) := gen_range (s_dmin s1) (s_dmax s1 + 1) (s_pos s1) in
        set_queue (set_pos s1 p) (s_queue s1 ++ [Msg from to ds (s_now s1 + d)]).

  (* ---- the routing loop ---- *)
  (* one entry of the routing table: (target replica id, deltas for it); node = id - 1 *)
  Definition send_entry (from : N) (s : sim) (e : N * list D) : sim :=
    if fst e =? 0 then set_panic s else send s from (N.pred (fst e)) (snd e).

  (* Vec::sort_by_key(|(target, _)| target.0): stable insertion sort on the target id *)
  Fixpoint insert_by_target (e : N * list D) (l : list (N * list D)) : list (N * list D) :=
    match l with
    | [] => [e]
    | x :: r => if fst e <=? fst x then e :: l else x :: insert_by_target e r
    end.
  Definition sort_by_target (l : list (N * list D)) : list (N * list D) :=
    fold_right insert_by_target [] l.

  (* what one node does in a round: broadcast its drained deltas to every other node in
     index order, or walk the routing table its router produced *)
  Inductive plan :=
  | PB (ds : list D)
  | PS (tbl : list (N * list D)).

  Fixpoint N_seq (n : nat) : list N :=
    match n with O => [] | S k => N_seq k ++ [N.of_nat k] end.

  Definition sender_step (fixed : bool) (o : nat -> list (N * list D) -> list (N * list D))
      (s : sim) (fp : N * plan) : sim :=
    match snd fp with
    | PB [] => s
    | PB ds =>
        fold_left (fun s t => send s (fst fp) t ds)
                  (filter (fun t => negb (t =? fst fp)) (N_seq (length (s_nodes s)))) s
    | PS tbl =>
        let seen := o (s_iters s) tbl in
        let visit := if fixed then sort_by_target seen else seen in
        fold_left (send_entry (fst fp)) visit (set_iters s (S (s_iters s)))
    end.

  (* ---- deliver_messages ---- *)
  Fixpoint take_ready (parts : list (N * N)) (now : N) (q : list msg) : list msg * list msg :=
    match q with
    | [] => ([], [])
    | m :: r =>
        if (m_time m <=? now) && can_comm parts (m_from m) (m_to m)
        then let '(d, rest) := take_ready parts now r in (m :: d, rest)
        else ([], q)
    end.

  Fixpoint update_nth {A} (n : nat) (f : A -> A) (l : list A) : option (list A) :=
    match l, n with
    | [], _ => None
    | x :: r, O => Some (f x :: r)
    | x :: r, S k => match update_nth k f r with Some r' => Some (x :: r') | None => None end
    end.

  Definition apply_msg (s : sim) (m : msg) : sim :=
    match update_nth (N.to_nat (m_to m)) (fun ns => apply_deltas ns (m_deltas m)) (s_nodes s) with
    | Some ns => set_nodes s ns
    | None => set_panic s
    end.

  Definition deliver (s : sim) : sim :=
    let '(d, rest) := take_ready (s_parts s) (s_now s) (s_queue s) in
    fold_left apply_msg d (set_queue s rest).

  Definition index_plans (ps : list plan) : list (N * plan) := combine (N_seq (length ps)) ps.

  Definition gossip_round (fixed : bool) o (s : sim) (plans : list plan) : sim :=
    deliver (fold_left (sender_step fixed o) (index_plans plans) s).

  (* ---- a run: the public calls a test makes between rounds ---- *)
  Inductive step :=
  | SRound (plans : list plan)
  | SAdvance (ms : N)
  | SPartition (a b : N)
  | SHeal (a b : N).

  Definition do_step (fixed : bool) o (s : sim) (st : step) : sim :=
    match st with
    | SRound plans => gossip_round fixed o s plans
    | SAdvance ms => set_now s (s_now s + ms)
    | SPartition a b => set_parts s (part_insert (s_parts s) a b)
    | SHeal a b => set_parts s (part_remove (s_parts s) a b)
    end.

  Definition run (fixed : bool) o (s : sim) (steps : list step) : sim :=
    fold_left (do_step fixed o) steps s.
End Kernel.

Arguments Msg {D}.
Arguments Sim {D NS}.
Arguments PB {D}.
Arguments PS {D}.
Arguments SRound {D}.
Arguments SAdvance {D}.
Arguments SPartition {D}.
Arguments SHeal {D}.
Arguments m_from {D}. Arguments m_to {D}. Arguments m_deltas {D}. Arguments m_time {D}.
Arguments s_nodes {D NS}. Arguments s_now {D NS}. Arguments s_pos {D NS}. Arguments s_queue {D NS}.
Arguments s_parts {D NS}. Arguments s_dmin {D NS}. Arguments s_dmax {D NS}. Arguments s_iters {D NS}.
Arguments s_panic {D NS}.

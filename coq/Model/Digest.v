(* Model of src/replication/anti_entropy.rs (KeyDigest, MerkleNode, StateDigest,
   AntiEntropyManager::get_keys_in_buckets) and of
   MultiNodeSimulation::run_anti_entropy_sync (src/simulator/multi_node.rs) together with
   ShardReplicaState::apply_remote_delta restricted to `replicated_keys`.
   Definitions only.

   Every function takes the hash function [h : list N -> N] (= the bytes fed to one
   DefaultHasher, then `finish()`) as an argument; the implementation is the instance
   [h := sip13] (Lib/SipHash.v; [sip13f] of Lib/SipHashFast.v is the same function, proved).
   `u64::hash` feeds the 8 little-endian bytes [le64f x] (= Lib.SipHash.le64 x, proved).
   A Rust `&HashMap<String, ReplicatedValue>` is the list of its entries IN ITERATION
   ORDER (the hidden oracle); theorems quantify over that order.  The merged values come
   from Model/Crdt.v ([rv_merge]). *)
From stdpp Require Import gmap sorting.
From Coq Require Import NArith.
From RV Require Import Lib.Hex Lib.SipHash Lib.SipHashFast Model.Crdt.
Local Open Scope N_scope.

Notation hashfn := (list N → N) (only parsing).
Notation entry := (list N * rvalue)%type (only parsing).
Notation smap := (gmap (list N) rvalue) (only parsing).

(* ---------- KeyDigest ---------- *)
Record kdigest := KD { kd_key : N; kd_val : N; kd_ts : N }.
Global Instance kdigest_eq_dec : EqDecision kdigest.
Proof. solve_decision. Defined.

(* the byte stream KeyDigest::new feeds to `value_hasher`:
   `time.hash` (u64: 8 LE bytes), `replica_id.0.hash` (u64), and, if `value.get()` is
   `Some(v)`, `v.as_bytes().hash` (<[u8]>::hash: length prefix as usize, then the bytes).
   `get()` is `Some` only for a non-tombstoned LWW register holding a value. *)
Definition value_bytes (v : rvalue) : list N :=
  le64f (st_time (rv_ts v)) ++ le64f (st_rid (rv_ts v)) ++
  match rv_get v with
  | Some b => le64f (N.of_nat (length b)) ++ b
  | None => []
  end.

(* `key.hash` is str::hash: the bytes, then 0xFF *)
Definition key_bytes (k : list N) : list N := k ++ [255].

Definition key_digest (h : hashfn) (k : list N) (v : rvalue) : kdigest :=
  KD (h (key_bytes k)) (h (value_bytes v)) (st_time (rv_ts v)).

(* KeyDigest::bucket: (key_hash as usize) % (1 << depth).  Reduction modulo a power of
   two is written as the mask with 2^depth - 1 ([N.land_ones]: the same number; the mask
   is linear-time under vm_compute). *)
Definition low_bits (depth x : N) : N := N.land x (N.ones depth).
Definition bucket_of (depth : N) (d : kdigest) : N := low_bits depth (kd_key d).

(* ---------- MerkleNode ---------- *)
Record node := Node { n_hash : N; n_count : N; n_max : N }.
Global Instance node_eq_dec : EqDecision node.
Proof. solve_decision. Defined.

Definition node_empty : node := Node 0 0 0.

(* the order in which from_digests hashes a bucket's digests: ascending in
   (key_hash, value_hash, timestamp)  — `sort_unstable_by_key` on that tuple (the repair
   recorded as fixed:C18-digest-order; before it this was the caller's order, i.e.
   [bucket_order ds = ds]).  The tuple is the whole KeyDigest, so the order is total and
   antisymmetric: every sorting algorithm returns the same list (merge sort here). *)
Definition kd_leb (a b : kdigest) : bool :=
  (kd_key a <? kd_key b) ||
  ((kd_key a =? kd_key b) &&
   ((kd_val a <? kd_val b) || ((kd_val a =? kd_val b) && (kd_ts a <=? kd_ts b)))).
Definition kd_le (a b : kdigest) : Prop := Is_true (kd_leb a b).
Global Instance kd_le_dec a b : Decision (kd_le a b).
Proof. unfold kd_le. apply _. Defined.

Definition bucket_order (ds : list kdigest) : list kdigest := merge_sort kd_le ds.

(* bytes fed to the bucket hasher: per digest `key_hash.hash`, `value_hash.hash` *)
Definition enc_digests (ds : list kdigest) : list N :=
  flat_map (λ d, le64f (kd_key d) ++ le64f (kd_val d)) ds.

(* MerkleNode::from_digests *)
Definition from_digests (h : hashfn) (ds : list kdigest) : node :=
  match ds with
  | [] => node_empty
  | _ :: _ =>
      let s := bucket_order ds in
      Node (h (enc_digests s)) (N.of_nat (length ds))
           (fold_left (λ m d, N.max m (kd_ts d)) s 0)
  end.

(* MerkleNode::combine *)
Definition combine_bytes (l r : node) : list N := le64f (n_hash l) ++ le64f (n_hash r).
Definition combine (h : hashfn) (l r : node) : node :=
  if (n_count l =? 0) && (n_count r =? 0) then node_empty
  else Node (h (combine_bytes l r)) (n_count l + n_count r) (N.max (n_max l) (n_max r)).

(* ---------- StateDigest ---------- *)
(* replica_id and generation are carried through unchanged and take no part in any
   comparison; they are not modelled. *)
Record sdigest := SD { sd_root : N; sd_count : N; sd_max : N; sd_buckets : list node }.
Global Instance sdigest_eq_dec : EqDecision sdigest.
Proof. solve_decision. Defined.

Definition digests (h : hashfn) (l : list entry) : list kdigest :=
  map (λ kv, key_digest h kv.1 kv.2) l.

(* bucket_digests[i]: the digests pushed to bucket i, in push (= iteration) order *)
Definition bucket_digests (depth : N) (ds : list kdigest) (i : N) : list kdigest :=
  filter (λ d, bucket_of depth d = i) ds.

Definition bucket_ids (depth : N) : list N :=
  map N.of_nat (seq 0 (N.to_nat (2 ^ depth))).

Definition bucket_nodes (h : hashfn) (depth : N) (l : list entry) : list node :=
  let ds := digests h l in
  map (λ i, from_digests h (bucket_digests depth ds i)) (bucket_ids depth).

Definition root_of (h : hashfn) (bs : list node) : node :=
  match bs with
  | [] => node_empty
  | b0 :: r => fold_left (combine h) r b0
  end.

(* StateDigest::from_state, for depth < 64 *)
Definition from_state (h : hashfn) (depth : N) (l : list entry) : sdigest :=
  let bs := bucket_nodes h depth l in
  let c := root_of h bs in
  SD (n_hash c) (n_count c) (n_max c) bs.

(* `1 << depth` on usize overflows for depth >= 64: a panic in a build with overflow
   checks (the shift happens before anything else). *)
Inductive outcome := DPanic | DOk (d : sdigest).
Definition from_state_checked (h : hashfn) (depth : N) (l : list entry) : outcome :=
  if 64 <=? depth then DPanic else DOk (from_state h depth l).

(* StateDigest::differs_from *)
Definition differs (a b : sdigest) : bool := negb (sd_root a =? sd_root b).

(* StateDigest::divergent_buckets: differing common indices, then the non-empty
   surplus buckets of the longer side *)
Fixpoint surplus (i : N) (x : list node) : list N :=
  match x with
  | [] => []
  | a :: x' => (if n_count a =? 0 then [] else [i]) ++ surplus (i + 1) x'
  end.
Fixpoint divergent_from (i : N) (x y : list node) : list N :=
  match x, y with
  | a :: x', b :: y' =>
      (if bool_decide (a = b) then [] else [i]) ++ divergent_from (i + 1) x' y'
  | [], [] => []
  | _ :: _, [] => surplus i x
  | [], _ :: _ => surplus i y
  end.
Definition divergent_buckets (a b : sdigest) : list N :=
  divergent_from 0 (sd_buckets a) (sd_buckets b).

(* ---------- AntiEntropyManager::get_keys_in_buckets ---------- *)
(* iterate the map, keep the entries whose bucket is requested, `take(max_keys_per_sync)` *)
(* `KeyDigest::new(key, value).bucket(depth)` only looks at the key hash; the model of the
   filter closure does not evaluate the value hash
   ([key_bucket h depth k = bucket_of depth (key_digest h k v)] by computation). *)
Definition key_bucket (h : hashfn) (depth : N) (k : list N) : N := low_bits depth (h (key_bytes k)).
Definition in_buckets (h : hashfn) (depth : N) (bs : list N) (kv : entry) : Prop :=
  key_bucket h depth kv.1 ∈ bs.
Global Instance in_buckets_dec h depth bs kv : Decision (in_buckets h depth bs kv).
Proof. unfold in_buckets. apply _. Defined.
Definition keys_in_buckets (h : hashfn) (depth : N) (limit : nat) (bs : list N)
    (l : list entry) : list entry :=
  take limit (filter (in_buckets h depth bs) l).

(* ---------- ShardReplicaState::apply_remote_delta on replicated_keys ---------- *)
Definition apply_delta (m : smap) (kv : entry) : smap :=
  match m !! kv.1 with
  | Some loc => <[kv.1 := rv_merge loc kv.2]> m
  | None => <[kv.1 := kv.2]> m
  end.
Definition apply_deltas (m : smap) (ds : list entry) : smap := fold_left apply_delta ds m.

(* ---------- MultiNodeSimulation::run_anti_entropy_sync ---------- *)
(* [la], [lb]: the two nodes' `replicated_keys` in their iteration orders.  Both delta
   lists are taken before either side applies anything. *)
(* what each side sends, if the round fires: the digests differ and
   `divergent_buckets` is not empty *)
Definition sync_exchange (h : hashfn) (depth : N) (limit : nat) (la lb : list entry)
    (da db : sdigest) : option (list entry * list entry) :=
  if differs da db then
    match divergent_buckets da db with
    | [] => None
    | dv => Some (keys_in_buckets h depth limit dv la, keys_in_buckets h depth limit dv lb)
    end
  else None.

Definition sync_round (h : hashfn) (depth : N) (limit : nat) (la lb : list entry)
    : smap * smap :=
  let A : smap := list_to_map la in
  let B : smap := list_to_map lb in
  match sync_exchange h depth limit la lb (from_state h depth la) (from_state h depth lb) with
  | Some (xa, xb) => (apply_deltas A xb, apply_deltas B xa)
  | None => (A, B)
  end.

(* ---------- what the value digest distinguishes ---------- *)
(* The value hash covers the outer stamp and `get()`.  A value is determined by these
   exactly when it is an LWW register stamped like the wrapper, "no value" is a
   tombstone, there is no vector clock, expiry or replication-factor override, and the
   stamp fields are u64. *)
Definition DigestVisible (v : rvalue) : Prop :=
  ∃ r, rv_crdt v = CLww r ∧ lw_ts r = rv_ts v ∧
       (lw_tomb r = true ↔ lw_val r = None) ∧
       rv_vc v = None ∧ rv_exp v = None ∧ rv_rf v = None ∧
       st_time (rv_ts v) < M64 ∧ st_rid (rv_ts v) < M64.
(* The known-finding class C18-digest-blind *)
Definition DigestBlind (v : rvalue) : Prop := ¬ DigestVisible v.

(* ---------- the finite set of hash inputs of one from_state computation ---------- *)
Fixpoint chain_inputs (h : hashfn) (acc : node) (r : list node) : list (list N) :=
  match r with
  | [] => []
  | b :: r' => combine_bytes acc b :: chain_inputs h (combine h acc b) r'
  end.
Definition hash_inputs (h : hashfn) (depth : N) (l : list entry) : list (list N) :=
  map (λ kv, key_bytes kv.1) l ++
  map (λ kv, value_bytes kv.2) l ++
  map (λ i, enc_digests (bucket_order (bucket_digests depth (digests h l) i))) (bucket_ids depth) ++
  match bucket_nodes h depth l with
  | [] => []
  | b0 :: r => chain_inputs h b0 r
  end.

(* [h] behaves like an ideal u64 hash on the finite set [S]: values are non-zero u64s
   (0 is the hash of the empty node) and there is no collision inside [S]. *)
Definition HashOK (h : hashfn) (S : list (list N)) : Prop :=
  (∀ x, x ∈ S → 0 < h x < M64) ∧ (∀ x y, x ∈ S → y ∈ S → h x = h y → x = y).

(* ---------- repeated rounds under a deterministic iteration order ---------- *)
(* [ord] is the oracle: the order in which a map with this content is iterated.  A Rust
   HashMap that is not resized keeps its order from round to round. *)
Definition sync_round_ord (ord : smap → list entry) (h : hashfn) (depth : N) (limit : nat)
    (s : smap * smap) : smap * smap :=
  sync_round h depth limit (ord s.1) (ord s.2).
Fixpoint sync_rounds (ord : smap → list entry) (h : hashfn) (depth : N) (limit : nat)
    (n : nat) (s : smap * smap) : smap * smap :=
  match n with
  | O => s
  | S n' => sync_rounds ord h depth limit n' (sync_round_ord ord h depth limit s)
  end.

(* The known-finding class C18-limit-starvation: the limit does not cover the keys one
   side holds in the divergent buckets. *)
Definition Covering (h : hashfn) (depth : N) (limit : nat) (la lb : list entry) : Prop :=
  let dv := divergent_buckets (from_state h depth la) (from_state h depth lb) in
  (length (filter (in_buckets h depth dv) la) ≤ limit)%nat ∧
  (length (filter (in_buckets h depth dv) lb) ≤ limit)%nat.
Definition ShortLimit (h : hashfn) (depth : N) (limit : nat) (la lb : list entry) : Prop :=
  ¬ Covering h depth limit la lb.

(* executable form of [HashOK] (sound: Proofs/DigestProofs.v, hash_ok_b_sound) *)
Definition hash_ok_b (h : hashfn) (S : list (list N)) : bool :=
  forallb (λ x, (0 <? h x) && (h x <? M64)) S &&
  forallb (λ x, forallb (λ y, implb (h x =? h y) (bool_decide (x = y))) S) S.

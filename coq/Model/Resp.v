(* Model of the two RESP decoders and the RESP encoders:
     src/redis/resp_optimized.rs   RespCodec::{parse, try_parse, parse_*, find_crlf, encode}
     src/redis/resp.rs             RespParser::{parse, parse_*, find_crlf, encode}
   transcribed arm by arm, as the code stands after the repairs recorded in
   known_findings.jsonl (C15-negative-length, C15-prealloc, C15-lone-cr, C15-nesting-depth).
   Definitions only.

   Conventions
   * a byte string is [list N]; positions, offsets and consumed counts are [nat] (they are
     bounded by the length of the input list); numbers read from the wire are [Z] (i64);
   * every slice [&input[a..b]] goes through [slice], which answers [None] when Rust would
     panic (a > b or b > len); every usize addition that involves a number read from the
     wire is checked against 2^64 (the harness is built in debug: overflow panics); a
     would-be panic is the outcome [Panic];
   * both decoders are ONE function with a flavour flag [codec] (true = RespCodec, the
     production decoder; false = RespParser, the simulation decoder).  After the repairs
     they differ only in (a) the explicit `offset >= input.len()` test in the array loop
     (RespCodec) versus recursing on the empty slice (RespParser), (b) the pre-allocation
     `Vec::with_capacity` (RespCodec) versus `Vec::new` (RespParser), (c) the texts by
     which they say "need more bytes" ("Incomplete" -> Ok(None) versus the errors
     "Empty input" / "No CRLF found" / "Incomplete bulk string"): the model has the single
     outcome [Incomplete] for all of them, the harness maps the texts, and (d) RespParser
     converts simple strings / errors with String::from_utf8_lossy, which the model does
     NOT reproduce: payloads of simple strings and errors are compared for RespParser only
     when the bytes are valid UTF-8, where the conversion is the identity (see Corr/C15.v);
   * each decoder returns its outcome together with the largest single allocation request
     (in bytes) it made on the way: `Vec::with_capacity(n)` requests n * 40 bytes
     (size_of::<RespValueZeroCopy>() = 40, asserted by the harness), a payload copy
     requests its length.  Constant-size error texts are not counted. *)
From Coq Require Import NArith ZArith List Bool.
From RV Require Import Lib.Hex.
Import ListNotations.

(* One value type for RespValue and RespValueZeroCopy. *)
Inductive resp :=
| RSimple (s : bytes)
| RError (s : bytes)
| RInt (z : Z)
| RNilBulk
| RBulk (s : bytes)
| RNilArr
| RArr (l : list resp).

Inductive errkind :=
| EUnknownType      (* "Unknown RESP type: _" *)
| EBadInt           (* Utf8Error / ParseIntError text of a length or integer line *)
| ENegLen           (* "Invalid bulk string length" / "Invalid array length" *)
| ETooDeep.         (* "Array nesting too deep" *)

Inductive outcome :=
| Done (v : resp) (n : nat)     (* Ok((v, n)) *)
| Incomplete                    (* need more bytes *)
| Err (k : errkind)             (* protocol error *)
| Panic                         (* the Rust code would panic here *)
| OutOfFuel.                    (* artefact of the fuel of the array loop; proved unreachable *)

Notation res := (outcome * N)%type (only parsing).

(* record one allocation request on top of what [r] already requested *)
Definition tick (a : N) (r : res) : res := (fst r, N.max a (snd r)).

Definition ELEM_SIZE : N := 40.      (* size_of::<RespValueZeroCopy>() *)
Definition MAX_DEPTH : nat := 32.    (* MAX_NESTING_DEPTH in both files *)

(* find_crlf (both files, after the repair): index of the first CR that is immediately
   followed by LF. *)
Fixpoint find_crlf (b : bytes) : option nat :=
  match b with
  | [] => None
  | x :: t =>
    match t with
    | [] => None
    | y :: _ =>
      if (x =? 13)%N && (y =? 10)%N then Some O
      else match find_crlf t with Some p => Some (S p) | None => None end
    end
  end.

(* &input[a..b]; None = slice index panic *)
Definition slice (b : bytes) (a e : nat) : option bytes :=
  if (a <=? e)%nat && (e <=? length b)%nat then Some (firstn (e - a) (skipn a b)) else None.

(* str::parse::<i64>: optional single '+' or '-', then one or more ASCII digits, nothing
   else; the value must fit i64.  (A line that is not valid UTF-8 fails earlier in
   RespCodec, and contains U+FFFD after the lossy conversion in RespParser: an error in
   both, like here, since a byte >= 128 is not a digit.) *)
Definition is_digit (c : N) : bool := ((48 <=? c) && (c <=? 57))%N.
Fixpoint digits_val (ds : bytes) (acc : N) : option N :=
  match ds with
  | [] => Some acc
  | c :: t => if is_digit c then digits_val t (10 * acc + (c - 48))%N else None
  end.
Definition I64_LIM : N := 9223372036854775808.   (* 2^63 *)
Definition parse_i64 (s : bytes) : option Z :=
  match s with
  | [] => None
  | c :: t =>
    let neg := (c =? 45)%N in
    let ds := if (c =? 45)%N || (c =? 43)%N then t else s in
    match ds with
    | [] => None
    | _ :: _ =>
      match digits_val ds 0 with
      | None => None
      | Some n =>
        if neg then (if (n <=? I64_LIM)%N then Some (- Z.of_N n)%Z else None)
        else (if (n <? I64_LIM)%N then Some (Z.of_N n) else None)
      end
    end
  end.

Definition USIZE_LIM : Z := 18446744073709551616.   (* 2^64 *)

(* parse_simple_string / parse_error *)
Definition parse_line (mk : bytes -> resp) (b : bytes) : res :=
  match find_crlf b with
  | None => (Incomplete, 0%N)
  | Some pos =>
    match slice b 1 pos with
    | None => (Panic, 0%N)
    | Some s => (Done (mk s) (pos + 2), N.of_nat (length s))
    end
  end.

(* parse_integer *)
Definition parse_integer (b : bytes) : res :=
  match find_crlf b with
  | None => (Incomplete, 0%N)
  | Some pos =>
    match slice b 1 pos with
    | None => (Panic, 0%N)
    | Some s =>
      match parse_i64 s with
      | None => (Err EBadInt, 0%N)
      | Some z => (Done (RInt z) (pos + 2), 0%N)
      end
    end
  end.

(* parse_bulk_string *)
Definition parse_bulk (b : bytes) : res :=
  match find_crlf b with
  | None => (Incomplete, 0%N)
  | Some pos =>
    match slice b 1 pos with
    | None => (Panic, 0%N)
    | Some s =>
      match parse_i64 s with
      | None => (Err EBadInt, 0%N)
      | Some len =>
        if (len =? -1)%Z then (Done RNilBulk (pos + 2), 0%N)
        else if (len <? 0)%Z then (Err ENegLen, 0%N)
        else
          let start := pos + 2 in
          let e := (Z.of_nat start + len)%Z in                 (* end = start + len *)
          if (USIZE_LIM <=? e)%Z then (Panic, 0%N)
          else if (USIZE_LIM <=? e + 2)%Z then (Panic, 0%N)    (* end + 2 *)
          else if (Z.of_nat (length b) <? e + 2)%Z then (Incomplete, 0%N)
          else
            let n := Z.to_nat len in
            match slice b start (start + n) with
            | None => (Panic, 0%N)
            | Some data => (Done (RBulk data) (start + n + 2), N.of_nat n)
            end
      end
    end
  end.

(* the `for _ in 0..len` loop of parse_array; [rec] is try_parse / parse one level
   deeper, [lf] is loop fuel (the length of the input is enough, see
   Proofs/RespProofs.v), [cnt] the iterations left, [off] the offset, [acc] the
   elements pushed so far (reversed). *)
Fixpoint arr_loop (codec : bool) (rec : bytes -> res) (lf : nat) (input : bytes)
         (cnt : N) (off : nat) (acc : list resp) : res :=
  if (cnt =? 0)%N then (Done (RArr (rev acc)) off, 0%N)
  else
    match lf with
    | O => (OutOfFuel, 0%N)
    | S lf' =>
      if codec && (length input <=? off)%nat then (Incomplete, 0%N)   (* RespCodec only *)
      else if (length input <? off)%nat then (Panic, 0%N)             (* &input[offset..] *)
      else
        let r := rec (skipn off input) in
        match fst r with
        | Done v c => tick (snd r) (arr_loop codec rec lf' input (cnt - 1) (off + c) (v :: acc))
        | _ => r
        end
    end.

(* parse_array, one level; the depth test is done by the caller [parse_d] *)
Definition parse_array (codec : bool) (rec : bytes -> res) (b : bytes) : res :=
  match find_crlf b with
  | None => (Incomplete, 0%N)
  | Some pos =>
    match slice b 1 pos with
    | None => (Panic, 0%N)
    | Some s =>
      match parse_i64 s with
      | None => (Err EBadInt, 0%N)
      | Some len =>
        if (len =? -1)%Z then (Done RNilArr (pos + 2), 0%N)
        else if (len <? 0)%Z then (Err ENegLen, 0%N)
        else if (length b <? pos + 2)%nat then (Panic, 0%N)     (* input.len() - (pos + 2) *)
        else
          let cap := if codec then N.min (Z.to_N len) (N.of_nat (length b - (pos + 2))) else 0%N in
          tick (ELEM_SIZE * cap)
               (arr_loop codec rec (length b) b (Z.to_N len) (pos + 2) [])
      end
    end
  end.

(* try_parse (RespCodec) / parse (RespParser) with [d] nesting levels left *)
Fixpoint parse_d (codec : bool) (d : nat) (b : bytes) : res :=
  match b with
  | [] => (Incomplete, 0%N)
  | c :: _ =>
    if (c =? 43)%N then parse_line RSimple b            (* '+' *)
    else if (c =? 45)%N then parse_line RError b        (* '-' *)
    else if (c =? 58)%N then parse_integer b            (* ':' *)
    else if (c =? 36)%N then parse_bulk b               (* '$' *)
    else if (c =? 42)%N then                            (* '*' *)
      match d with
      | O => (Err ETooDeep, 0%N)
      | S d' => parse_array codec (parse_d codec d') b
      end
    else (Err EUnknownType, 0%N)
  end.

Definition run (codec : bool) (b : bytes) : res := parse_d codec MAX_DEPTH b.
Definition parse (codec : bool) (b : bytes) : outcome := fst (run codec b).
Definition alloc_request (codec : bool) (b : bytes) : N := snd (run codec b).

(* ---------------------------------------------------------------- encoders *)

(* u64/i64 Display *)
Fixpoint show_N_aux (fuel : nat) (n : N) (acc : bytes) : bytes :=
  match fuel with
  | O => acc
  | S f =>
    let acc' := (48 + n mod 10)%N :: acc in
    if (n <? 10)%N then acc' else show_N_aux f (n / 10)%N acc'
  end.
Definition show_N (n : N) : bytes := show_N_aux (S (N.to_nat (N.log2 n))) n [].
Definition show_Z (z : Z) : bytes :=
  if (z <? 0)%Z then 45%N :: show_N (Z.to_N (- z)) else show_N (Z.to_N z).

Definition CRLF : bytes := [13%N; 10%N].

(* RespCodec::encode = RespParser::encode (on ASCII simple strings) *)
Fixpoint encode (v : resp) : bytes :=
  match v with
  | RSimple s => 43%N :: s ++ CRLF
  | RError s => 45%N :: s ++ CRLF
  | RInt z => 58%N :: show_Z z ++ CRLF
  | RNilBulk => 36%N :: 45%N :: 49%N :: CRLF
  | RBulk s => 36%N :: show_N (N.of_nat (length s)) ++ CRLF ++ s ++ CRLF
  | RNilArr => 42%N :: 45%N :: 49%N :: CRLF
  | RArr l => 42%N :: show_N (N.of_nat (length l)) ++ CRLF ++ flat_map encode l
  end.

(* values both encoders can be trusted with: no CR/LF inside simple strings and errors,
   integers in i64, nesting within MAX_DEPTH *)
Definition line_ok (s : bytes) : bool := forallb (fun c => negb (c =? 13)%N && negb (c =? 10)%N) s.
Fixpoint wf_resp (d : nat) (v : resp) {struct v} : bool :=
  match v with
  | RSimple s | RError s => line_ok s
  | RInt z => ((- Z.of_N I64_LIM <=? z) && (z <? Z.of_N I64_LIM))%Z
  | RNilBulk | RBulk _ => true
  | RNilArr => match d with O => false | S _ => true end   (* "*-1" is an array header too *)
  | RArr l => match d with O => false | S d' => forallb (wf_resp d') l end
  end.

(* ---------------------------------------------------------------- streams *)

(* What the connection loop does with a buffer: decode frames until the decoder asks for
   more bytes or reports an error (connection_optimized.rs / simulator/connection.rs:
   `loop { match RespCodec::parse(&mut buf) { Ok(Some(v)) => .., Ok(None) => break,
   Err(_) => .. } }`). *)
Inductive stail :=
| TMore (rest : bytes)      (* waiting for more input; [rest] stays in the buffer *)
| TErr (k : errkind)
| TPanic
| TOutOfFuel.

Fixpoint decode_all (codec : bool) (fuel : nat) (buf : bytes) : list resp * stail :=
  match fuel with
  | O => ([], TOutOfFuel)
  | S f =>
    match parse codec buf with
    | Done v n => let r := decode_all codec f (skipn n buf) in (v :: fst r, snd r)
    | Incomplete => ([], TMore buf)
    | Err k => ([], TErr k)
    | Panic => ([], TPanic)
    | OutOfFuel => ([], TOutOfFuel)
    end
  end.
Definition decode_stream (codec : bool) (buf : bytes) := decode_all codec (S (length buf)) buf.

(* feeding fragments: the buffer keeps the undecoded rest between reads; after an error
   the connection is dead and later fragments are ignored *)
Definition feed (codec : bool) (st : list resp * stail) (frag : bytes) : list resp * stail :=
  match snd st with
  | TMore rest => let r := decode_stream codec (rest ++ frag) in (fst st ++ fst r, snd r)
  | _ => st
  end.
Definition feed_all (codec : bool) (frags : list bytes) : list resp * stail :=
  fold_left (feed codec) frags ([], TMore []).

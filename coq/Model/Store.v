(* Model of the ObjectStore contract of src/streaming/object_store.rs as the streaming
   persistence layer uses it, with the fault model of C12.  Definitions only.

   A store is a finite map from object names to objects.  Bytes are not modelled (the
   segment / checkpoint codecs are C14's subject): an object is either [Whole o], the
   complete image of the abstract object [o], or [Torn], a strict prefix of some image
   left behind by a put that failed half way (every decoder rejects it: C14).

   Fault model.  Every call consumes one [outcome] from the stream [w_io] (the fault
   script), in program order:
     OOk          the call takes full effect and reports success (a get / rename of a
                  missing object truthfully reports NotFound),
     OErr ENone   the call has no effect and reports an error (kind Other),
     OErr ETorn   (put only) a strict prefix is stored, the call reports an error,
     OErr EFull   (put only) everything is stored, the call still reports an error;
     OErr EGarble (get only) the call reports SUCCESS but the bytes it returns are damaged
                  in transit (a transient read-side corruption, e.g. a flipped bit: the
                  object at rest is untouched).  Every decoder rejects the damaged image
                  (C14, relative to the checksums), so the reader sees [Torn];
                  for the other calls every OErr (EGarble included) has no effect.
   When the stream is exhausted the process is dead: that call and all later ones do
   nothing ([RCrash]).  So a crash instant (between any two calls, or "inside" a put:
   ETorn followed by the end of the stream) is a prefix of the outcome stream, and a
   theorem quantified over all streams covers every crash point and fault placement.
   A store that reports success for a truncated write (the repo's SimulatedObjectStore
   "partial write" does) lies and is outside this fault model. *)
From stdpp Require Import gmap.
From Coq Require Import NArith.
Local Open Scope N_scope.

(* "<prefix>/manifest.json", "<prefix>/manifest.json.tmp",
   "<prefix>/segments/segment-<id:08>.seg", "<prefix>/checkpoints/chk-<ts:016>.chk" *)
Inductive name := NMan | NTmp | NSeg (id : N) | NCk (id : N).
Global Instance name_eq_dec : EqDecision name.
Proof. solve_decision. Defined.
Definition name_enc (n : name) : N * N :=
  match n with NMan => (0, 0) | NTmp => (1, 0) | NSeg i => (2, i) | NCk i => (3, i) end.
Definition name_dec (p : N * N) : name :=
  match p with (0, _) => NMan | (1, _) => NTmp | (2, i) => NSeg i | (_, i) => NCk i end.
Lemma name_dec_enc n : name_dec (name_enc n) = n.
Proof. by destruct n. Qed.
Global Instance name_countable : Countable name := inj_countable' name_enc name_dec name_dec_enc.

Inductive sobj (O : Type) := Whole (o : O) | Torn.
Arguments Whole {O} o.
Arguments Torn {O}.

Inductive effect := ENone | ETorn | EFull | EGarble.
Global Instance effect_eq_dec : EqDecision effect.
Proof. solve_decision. Defined.
Inductive outcome := OOk | OErr (e : effect).
Global Instance outcome_eq_dec : EqDecision outcome.
Proof. solve_decision. Defined.
Inductive call :=
| CPut (n : name) | CGet (n : name) | CRename (a b : name) | CDelete (n : name)
| CExists (n : name) | CList.
Global Instance call_eq_dec : EqDecision call.
Proof. solve_decision. Defined.
Inductive res (A : Type) := ROk (a : A) | RErr | RCrash.
Arguments ROk {A} a.
Arguments RErr {A}.
Arguments RCrash {A}.

Section store.
  Context {O : Type}.
  Notation store := (gmap name (sobj O)) (only parsing).

  Record world := World {
    w_store : gmap name (sobj O);
    w_io : list outcome;               (* outcomes still to come *)
    w_log : list (call * outcome);     (* calls made so far, newest first *)
    w_crashed : bool                   (* a call found the stream exhausted *)
  }.

  Definition crash (w : world) : world := World (w_store w) [] (w_log w) true.
  Definition stepw (w : world) (st : gmap name (sobj O)) (io : list outcome) (c : call) (o : outcome) : world :=
    World st io ((c, o) :: w_log w) (w_crashed w).

  (* what a reader gets when the bytes were damaged in transit *)
  Definition garble (o : option (sobj O)) : option (sobj O) :=
    match o with Some _ => Some Torn | None => None end.

  (* put: create or overwrite *)
  Definition st_put (w : world) (n : name) (o : O) : world * res unit :=
    match w_io w with
    | [] => (crash w, RCrash)
    | oc :: io =>
        match oc with
        | OOk => (stepw w (<[n := Whole o]> (w_store w)) io (CPut n) oc, ROk tt)
        | OErr ENone => (stepw w (w_store w) io (CPut n) oc, RErr)
        | OErr ETorn => (stepw w (<[n := Torn]> (w_store w)) io (CPut n) oc, RErr)
        | OErr EFull => (stepw w (<[n := Whole o]> (w_store w)) io (CPut n) oc, RErr)
        | OErr EGarble => (stepw w (w_store w) io (CPut n) oc, RErr)
        end
    end.

  (* get: [ROk None] is the truthful NotFound *)
  Definition st_get (w : world) (n : name) : world * res (option (sobj O)) :=
    match w_io w with
    | [] => (crash w, RCrash)
    | oc :: io =>
        let w' := stepw w (w_store w) io (CGet n) oc in
        match oc with
        | OOk => (w', ROk (w_store w !! n))
        | OErr EGarble => (w', ROk (garble (w_store w !! n)))
        | OErr _ => (w', RErr)
        end
    end.

  (* rename: atomic move; a missing source is reported as an error (NotFound) *)
  Definition st_rename (w : world) (a b : name) : world * res unit :=
    match w_io w with
    | [] => (crash w, RCrash)
    | oc :: io =>
        match oc with
        | OOk =>
            match w_store w !! a with
            | Some x => (stepw w (<[b := x]> (delete a (w_store w))) io (CRename a b) oc, ROk tt)
            | None => (stepw w (w_store w) io (CRename a b) oc, RErr)
            end
        | OErr _ => (stepw w (w_store w) io (CRename a b) oc, RErr)
        end
    end.

  (* delete: deleting a missing object succeeds *)
  Definition st_delete (w : world) (n : name) : world * res unit :=
    match w_io w with
    | [] => (crash w, RCrash)
    | oc :: io =>
        match oc with
        | OOk => (stepw w (delete n (w_store w)) io (CDelete n) oc, ROk tt)
        | OErr _ => (stepw w (w_store w) io (CDelete n) oc, RErr)
        end
    end.

  Definition st_exists (w : world) (n : name) : world * res bool :=
    match w_io w with
    | [] => (crash w, RCrash)
    | oc :: io =>
        let w' := stepw w (w_store w) io (CExists n) oc in
        match oc with
        | OOk => (w', ROk (bool_decide (is_Some (w_store w !! n))))
        | OErr _ => (w', RErr)
        end
    end.

  Definition st_list (w : world) : world * res (list name) :=
    match w_io w with
    | [] => (crash w, RCrash)
    | oc :: io =>
        let w' := stepw w (w_store w) io CList oc in
        match oc with
        | OOk => (w', ROk (map fst (map_to_list (w_store w))))
        | OErr _ => (w', RErr)
        end
    end.
End store.
Arguments world O : clear implicits.

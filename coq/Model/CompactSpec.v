(* Predicates used by the statements of C13.  Definitions only. *)
From stdpp Require Import gmap.
From Coq Require Import NArith.
From RV Require Import Lib.Hex Model.Crdt Model.Store Model.Persist.
Local Open Scope N_scope.

(* the client-visible part of a node state: keys whose value is an LWW tombstone read as
   absent *)
Definition is_live (kv : list N * rvalue) : Prop := is_tomb kv.2 = false.
Global Instance is_live_dec kv : Decision (is_live kv).
Proof. unfold is_live. apply _. Defined.
Definition live_kv (s : gmap (list N) rvalue) : gmap (list N) rvalue := filter is_live s.

(* what a compaction writes for the concatenated contents [A] of its input segments *)
Definition compacted (v : variant) (cutoff : N) (A : list delta) : list delta :=
  compact_out cutoff (fold_left (absorb v) A ∅).
(* the tombstones it drops *)
Definition dropped (v : variant) (cutoff : N) (A : list delta) : list delta :=
  filter (λ d, negb (keep_delta cutoff d)) (compacted v 0 A).

(* a flush that runs between a compaction's manifest load and the rest of the compaction:
   the compaction continues from the manifest snapshot it took on [st0] *)
Definition interleaved (v : variant) (c : pcfg) (now sz fsz : N) (st0 : gmap name (sobj obj))
    (ds : list delta) (io_f io_c : list outcome) : sys * (world obj * cres) :=
  match cur_manifest st0 0 with
  | Some m0 =>
      let s1 := run_persist c 1 st0 (map WPush ds ++ [WFlush fsz]) io_f in
      (s1, compact_rest v (pc_cc c) now sz m0 (World (w_store (s_w s1)) io_c [] false))
  | None => (sys_init 1 st0 io_f, (World st0 io_c [] false, CErr))
  end.

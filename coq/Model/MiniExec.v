(* A small executable backend for the connection handler model (Model/Conn.v): the commands the
   C04 / C05 correspondence harnesses send, with the parse (Command::from_resp_zero_copy), execute
   (CommandExecutor via ShardedActorState::execute) and stub behaviour of /repo transcribed for
   exactly these commands:
     PING ECHO GET SET DEL INCR APPEND LPUSH LRANGE LLEN HSET HGET SADD SISMEMBER ZADD ZCARD
     MULTI EXEC DISCARD WATCH UNWATCH CONFIG <unknown subcommand>  PUBLISH-family / HELLO / RESET stubs
     and any other name (Command::Unknown).
   The keyspace is an association list from key bytes to values (first match wins), an association
   list of deadlines and a clock (CommandExecutor: data, expirations, current_time).  The clock is
   part of the state and is set from outside before a command runs (ShardMessage carries the
   virtual time; after repair C04-fast-path-stale-clock EVERY entry path - Command, Fast*, Pooled*,
   FastBatch* - evaluates expiry at the current time).  A key whose deadline has passed is absent for
   every reader and writer.  (The code drops expired keys eagerly: set_time, which precedes every
   command on every path, evicts them; the model leaves them in place and ignores them - the same
   for every command, DEL and DBSIZE included, which count live keys only.)
   Keys are compared as raw bytes: the lossy UTF-8 conversion of keys by the generic path is NOT
   modelled (the harnesses use at most one key that is not valid UTF-8, and none equal to its lossy
   image, so key identity is preserved).  Command names are ASCII (to_uppercase on ASCII only).
   SET options, AUTH / ACL, CONFIG GET/SET/RESETSTAT, ZADD flags and non-integer scores are outside
   this mini model (decode answers the marker error "unmodelled"; the harnesses never send them). *)
From Coq Require Import String Ascii NArith ZArith List Bool.
From RV Require Import Lib.Hex Model.Resp Model.Conn.
Import ListNotations.

Inductive mval :=
| VStr (s : bytes)
| VList (l : list bytes)
| VHash (h : list (bytes * bytes))
| VSet (m : list bytes)
| VZSet (z : list (bytes * Z)).


Fixpoint lookup {A} (k : bytes) (s : list (bytes * A)) : option A :=
  match s with
  | [] => None
  | (k', v) :: t => if bytes_eqb k k' then Some v else lookup k t
  end.
Fixpoint remove {A} (k : bytes) (s : list (bytes * A)) : list (bytes * A) :=
  match s with
  | [] => []
  | (k', v) :: t => if bytes_eqb k k' then remove k t else (k', v) :: remove k t
  end.
(* insert keeps the position of an existing binding (irrelevant for lookups; keeps dumps stable) *)
Fixpoint insert {A} (k : bytes) (v : A) (s : list (bytes * A)) : list (bytes * A) :=
  match s with
  | [] => [(k, v)]
  | (k', v') :: t => if bytes_eqb k k' then (k, v) :: t else (k', v') :: insert k v t
  end.
Fixpoint mem (x : bytes) (l : list bytes) : bool :=
  match l with [] => false | y :: t => bytes_eqb x y || mem x t end.

Record mstate := mkM {
  now : N;                          (* current_time, milliseconds *)
  data : list (bytes * mval);
  exps : list (bytes * N)           (* expirations: key -> deadline *)
}.
Notation store := mstate (only parsing).
Definition m0 : mstate := mkM 0 [] [].
(* is_expired: `expiration <= current_time` *)
Definition expired (s : mstate) (k : bytes) : bool :=
  match lookup k (exps s) with Some d => (d <=? now s)%N | None => false end.
(* get_value: what a command sees under key k *)
Definition vget (s : mstate) (k : bytes) : option mval := if expired s k then None else lookup k (data s).
(* get_value_mut / the `if self.is_expired(key) { remove }` prologue of the writers *)
Definition purge (s : mstate) (k : bytes) : mstate :=
  if expired s k then mkM (now s) (remove k (data s)) (remove k (exps s)) else s.
Definition put (s : mstate) (k : bytes) (v : mval) : mstate := mkM (now s) (insert k v (data s)) (exps s).
Definition put_fresh (s : mstate) (k : bytes) (v : mval) : mstate :=
  mkM (now s) (insert k v (data s)) (remove k (exps s)).
Definition put_px (s : mstate) (k : bytes) (v : mval) (px : N) : mstate :=
  mkM (now s) (insert k v (data s)) (insert k (now s + px)%N (exps s)).
Definition at_time (s : mstate) (t : N) : mstate := mkM t (data s) (exps s).

Inductive mcmd :=
| CPing (m : option bytes)
| CEcho (m : bytes)
| CGet (k : bytes)
| CSet (k v : bytes)
| CSetPx (k v : bytes) (px : N)      (* SET k v PX px, px > 0 *)
| CDel (ks : list bytes)
| CFlush                              (* FLUSHALL / FLUSHDB *)
| CDbSize
| CMSet (ps : list (bytes * bytes))
| CMGet (ks : list bytes)
| CIncr (k : bytes)
| CAppend (k v : bytes)
| CLPush (k : bytes) (vs : list bytes)
| CLRange (k : bytes) (a b : Z)
| CLLen (k : bytes)
| CHSet (k : bytes) (ps : list (bytes * bytes))
| CHGet (k f : bytes)
| CSAdd (k : bytes) (ms : list bytes)
| CSIsMember (k m : bytes)
| CZAdd (k : bytes) (ps : list (Z * bytes))
| CZCard (k : bytes)
| CMulti | CExec | CDiscard
| CWatch (ks : list bytes)
| CUnwatch
| CUnknown (name : bytes).     (* the upper-cased command name *)

(* ------------------------------------------------------------------ parse *)
Definition upper (s : bytes) : bytes := map (fun c => if ((97 <=? c) && (c <=? 122))%N then (c - 32)%N else c) s.
Definition lower (s : bytes) : bytes := map (fun c => if ((65 <=? c) && (c <=? 90))%N then (c + 32)%N else c) s.
Definition is (n : bytes) (s : string) : bool := bytes_eqb n (str s).

(* extract_string_zc / extract_sds_zc on every argument *)
Fixpoint bulks (l : list resp) : option (list bytes) :=
  match l with
  | [] => Some []
  | RBulk s :: t => match bulks t with Some r => Some (s :: r) | None => None end
  | _ :: _ => None
  end.
Fixpoint pairs_of {A} (l : list A) : list (A * A) :=
  match l with a :: b :: t => (a, b) :: pairs_of t | _ => [] end.
Fixpoint scores (l : list (bytes * bytes)) : option (list (Z * bytes)) :=
  match l with
  | [] => Some []
  | (sc, m) :: t =>
    match parse_i64 sc, scores t with
    | Some z, Some r => Some ((z, m) :: r)
    | _, _ => None
    end
  end.

Definition E (s : string) : mcmd + bytes := inr (str s).
Definition EXPECTED_BULK : mcmd + bytes := E "Expected bulk string".
Definition NOT_INT : mcmd + bytes := E "ERR value is not an integer or out of range".

(* Command::from_resp_zero_copy *)
Definition mdecode (v : resp) : mcmd + bytes :=
  match v with
  | RArr (RBulk name :: args) =>
    let n := upper name in
    let argc := List.length args in
    if is n "PING" then
      match args with
      | [] => inl (CPing None)
      | RBulk m :: _ => inl (CPing (Some m))
      | _ :: _ => EXPECTED_BULK
      end
    else if is n "ECHO" then
      if negb (argc =? 1)%nat then E "ERR wrong number of arguments for 'echo' command"
      else match args with [RBulk m] => inl (CEcho m) | _ => EXPECTED_BULK end
    else if is n "MULTI" then inl CMulti
    else if is n "EXEC" then inl CExec
    else if is n "DISCARD" then inl CDiscard
    else if is n "UNWATCH" then inl CUnwatch
    else if is n "WATCH" then
      if (argc <? 1)%nat then E "WATCH requires at least 1 argument"
      else match bulks args with Some ks => inl (CWatch ks) | None => EXPECTED_BULK end
    else if is n "CONFIG" then
      if (argc <? 1)%nat then E "ERR wrong number of arguments for 'config' command"
      else match args with
           | RBulk sub :: _ =>
             let u := upper sub in
             if is u "GET" || is u "SET" || is u "RESETSTAT" then E "unmodelled"
             else inr (str "ERR unknown subcommand or wrong number of arguments for 'config|"
                         ++ lower u ++ str "' command")
           | _ => EXPECTED_BULK
           end
    else if is n "GET" then
      if negb (argc =? 1)%nat then E "ERR wrong number of arguments for 'get' command"
      else match args with [RBulk k] => inl (CGet k) | _ => EXPECTED_BULK end
    else if is n "SET" then
      if (argc <? 2)%nat then E "SET requires at least 2 arguments"
      else match args with
           | [RBulk k; RBulk x] => inl (CSet k x)
           | [_; _] => EXPECTED_BULK
           | [RBulk k; RBulk x; RBulk o; RBulk n] =>
             match parse_i64 n with
             | Some z => if is (upper o) "PX" && (0 <? z)%Z then inl (CSetPx k x (Z.to_N z)) else E "unmodelled"
             | None => E "unmodelled"
             end
           | _ => E "unmodelled"
           end
    else if is n "FLUSHALL" || is n "FLUSHDB" then inl CFlush
    else if is n "DBSIZE" then inl CDbSize
    else if is n "MGET" then
      if (argc <? 1)%nat then E "MGET requires at least 1 argument"
      else match bulks args with Some ks => inl (CMGet ks) | None => EXPECTED_BULK end
    else if is n "MSET" then
      if (argc <? 2)%nat || negb (Nat.even argc) then E "ERR wrong number of arguments for 'mset' command"
      else match bulks args with Some kv => inl (CMSet (pairs_of kv)) | None => EXPECTED_BULK end
    else if is n "DEL" then
      if (argc <? 1)%nat then E "DEL requires at least 1 argument"
      else match bulks args with Some ks => inl (CDel ks) | None => EXPECTED_BULK end
    else if is n "INCR" then
      if negb (argc =? 1)%nat then E "ERR wrong number of arguments for 'incr' command"
      else match args with [RBulk k] => inl (CIncr k) | _ => EXPECTED_BULK end
    else if is n "APPEND" then
      if negb (argc =? 2)%nat then E "APPEND requires 2 arguments"
      else match args with [RBulk k; RBulk x] => inl (CAppend k x) | _ => EXPECTED_BULK end
    else if is n "LPUSH" then
      if (argc <? 2)%nat then E "LPUSH requires key and values"
      else match bulks args with Some (k :: vs) => inl (CLPush k vs) | _ => EXPECTED_BULK end
    else if is n "LRANGE" then
      if negb (argc =? 3)%nat then E "LRANGE requires 3 arguments"
      else match args with
           | [RBulk k; RBulk a; RBulk b] =>
             match parse_i64 a, parse_i64 b with
             | Some x, Some y => inl (CLRange k x y)
             | _, _ => NOT_INT
             end
           | _ => E "unmodelled"
           end
    else if is n "LLEN" then
      if negb (argc =? 1)%nat then E "LLEN requires 1 argument"
      else match args with [RBulk k] => inl (CLLen k) | _ => EXPECTED_BULK end
    else if is n "HSET" then
      if (argc <? 3)%nat || negb (Nat.even (argc - 1)) then E "HSET requires key and field-value pairs"
      else match bulks args with Some (k :: fv) => inl (CHSet k (pairs_of fv)) | _ => EXPECTED_BULK end
    else if is n "HGET" then
      if negb (argc =? 2)%nat then E "HGET requires 2 arguments"
      else match args with [RBulk k; RBulk f] => inl (CHGet k f) | _ => EXPECTED_BULK end
    else if is n "SADD" then
      if (argc <? 2)%nat then E "SADD requires key and members"
      else match bulks args with Some (k :: ms) => inl (CSAdd k ms) | _ => EXPECTED_BULK end
    else if is n "SISMEMBER" then
      if negb (argc =? 2)%nat then E "SISMEMBER requires 2 arguments"
      else match args with [RBulk k; RBulk m] => inl (CSIsMember k m) | _ => EXPECTED_BULK end
    else if is n "ZADD" then
      if (argc <? 3)%nat then E "ZADD requires key and score-member pairs"
      else match bulks args with
           | Some (k :: sm) =>
             if negb (Nat.even (List.length sm)) then E "ZADD requires score-member pairs"
             else match scores (pairs_of sm) with
                  | Some ps => inl (CZAdd k ps)
                  | None => E "unmodelled"
                  end
           | _ => EXPECTED_BULK
           end
    else if is n "ZCARD" then
      if negb (argc =? 1)%nat then E "ZCARD requires 1 argument"
      else match args with [RBulk k] => inl (CZCard k) | _ => EXPECTED_BULK end
    else inl (CUnknown n)
  | _ => E "Invalid command format"
  end.

(* ------------------------------------------------------------------ execute *)
Definition WRONGTYPE : resp := RError (str "WRONGTYPE Operation against a key holding the wrong kind of value").
Definition nat_int (n : nat) : resp := RInt (Z.of_nat n).

(* RedisList::range *)
Definition lrange (l : list bytes) (start stop : Z) : list bytes :=
  let len := Z.of_nat (List.length l) in
  let start := if (start <? 0)%Z then Z.max (len + start) 0 else Z.min start len in
  let stop := if (stop <? 0)%Z then Z.max (len + stop) (-1) else Z.min stop (len - 1) in
  if ((stop <? start) || (len <=? start))%Z then []
  else firstn (Z.to_nat (stop - start + 1)) (skipn (Z.to_nat start) l).

(* execute_del: `data.remove(key).is_some()` counts (expired keys are gone by then: set_time evicts),
   `expirations.remove(key)` *)
Fixpoint del_keys (s : store) (ks : list bytes) : store * nat :=
  match ks with
  | [] => (s, 0)
  | k :: t =>
    let hit := match vget s k with Some _ => 1 | None => 0 end in
    let '(s', n) := del_keys (mkM (now s) (remove k (data s)) (remove k (exps s))) t in (s', hit + n)
  end.
Fixpoint hset_all (h : list (bytes * bytes)) (ps : list (bytes * bytes)) : list (bytes * bytes) * nat :=
  match ps with
  | [] => (h, 0)
  | (f, v) :: t =>
    let fresh := match lookup f h with Some _ => 0 | None => 1 end in
    let '(h', n) := hset_all (insert f v h) t in (h', fresh + n)
  end.
Fixpoint sadd_all (m : list bytes) (xs : list bytes) : list bytes * nat :=
  match xs with
  | [] => (m, 0)
  | x :: t => if mem x m then sadd_all m t else let '(m', n) := sadd_all (m ++ [x]) t in (m', S n)
  end.
Fixpoint zadd_all (z : list (bytes * Z)) (ps : list (Z * bytes)) : list (bytes * Z) * nat :=
  match ps with
  | [] => (z, 0)
  | (sc, m) :: t =>
    let fresh := match lookup m z with Some _ => 0 | None => 1 end in
    let '(z', n) := zadd_all (insert m sc z) t in (z', fresh + n)
  end.

(* parse_redis_integer (string_ops.rs): Redis's string2ll - an optional '-', then a digit 1-9
   followed by digits; "0" is the only spelling of zero; the value must fit i64 *)
Definition parse_redis_integer (s : bytes) : option Z :=
  let digits := match s with 45%N :: t => t | _ => s end in
  let canonical :=
    bytes_eqb s [48%N]
    || (match digits with d :: _ => ((49 <=? d) && (d <=? 57))%N | [] => false end && forallb is_digit digits) in
  if canonical then parse_i64 s else None.

Definition unknown_reply (name : bytes) : resp :=
  RError (sanitize (str "ERR unknown command '" ++ name ++ str "'")).

(* ShardedActorState::execute for these commands (the answer does not depend on the number of
   shards: every command is routed by its key, DEL sums the per-shard counts) *)
Definition mexec (s : store) (c : mcmd) : store * resp :=
  match c with
  | CPing None => (s, RSimple (str "PONG"))
  | CPing (Some m) => (s, RBulk m)
  | CEcho m => (s, RBulk m)
  | CGet k =>
    match vget s k with
    | Some (VStr x) => (s, RBulk x)
    | Some _ => (s, WRONGTYPE)
    | None => (s, RNilBulk)
    end
  | CSet k x => (put_fresh s k (VStr x), RSimple (str "OK"))
  | CSetPx k x px => (put_px s k (VStr x) px, RSimple (str "OK"))
  | CDel ks => let '(s', n) := del_keys s ks in (s', nat_int n)
  | CFlush => (mkM (now s) [] [], RSimple (str "OK"))
  | CDbSize => (s, nat_int (List.length (filter (fun p => negb (expired s (fst p))) (data s))))
  | CMSet ps => (fold_left (fun s p => put_fresh s (fst p) (VStr (snd p))) ps s, RSimple (str "OK"))
  | CMGet ks => (s, RArr (map (fun k => match vget s k with Some (VStr x) => RBulk x | _ => RNilBulk end) ks))
  | CIncr k =>
    let s := purge s k in
    match lookup k (data s) with
    | Some (VStr x) =>
      match parse_redis_integer x with
      | None => (s, RError (str "ERR value is not an integer or out of range"))
      | Some z =>
        if (z + 1 <? Z.of_N I64_LIM)%Z then (put s k (VStr (show_Z (z + 1))), RInt (z + 1))
        else (s, RError (str "ERR increment or decrement would overflow"))
      end
    | Some _ => (s, WRONGTYPE)
    | None => (put s k (VStr (show_Z 1)), RInt 1)
    end
  | CAppend k x =>
    let s := purge s k in
    match lookup k (data s) with
    | Some (VStr y) => (put s k (VStr (y ++ x)), nat_int (List.length (y ++ x)))
    | Some _ => (s, WRONGTYPE)
    | None => (put s k (VStr x), nat_int (List.length x))
    end
  | CLPush k vs =>
    let s := purge s k in
    match lookup k (data s) with
    | Some (VList l) => (put s k (VList (rev vs ++ l)), nat_int (List.length (rev vs ++ l)))
    | Some _ => (s, WRONGTYPE)
    | None => (put s k (VList (rev vs)), nat_int (List.length vs))
    end
  | CLRange k a b =>
    match vget s k with
    | Some (VList l) => (s, RArr (map RBulk (lrange l a b)))
    | Some _ => (s, WRONGTYPE)
    | None => (s, RArr [])
    end
  | CLLen k =>
    match vget s k with
    | Some (VList l) => (s, nat_int (List.length l))
    | Some _ => (s, WRONGTYPE)
    | None => (s, RInt 0)
    end
  | CHSet k ps =>
    let s := purge s k in
    match lookup k (data s) with
    | Some (VHash h) => let '(h', n) := hset_all h ps in (put s k (VHash h'), nat_int n)
    | Some _ => (s, WRONGTYPE)
    | None => let '(h', n) := hset_all [] ps in (put s k (VHash h'), nat_int n)
    end
  | CHGet k f =>
    match vget s k with
    | Some (VHash h) => (s, match lookup f h with Some x => RBulk x | None => RNilBulk end)
    | Some _ => (s, WRONGTYPE)
    | None => (s, RNilBulk)
    end
  | CSAdd k ms =>
    let s := purge s k in
    match lookup k (data s) with
    | Some (VSet m) => let '(m', n) := sadd_all m ms in (put s k (VSet m'), nat_int n)
    | Some _ => (s, WRONGTYPE)
    | None => let '(m', n) := sadd_all [] ms in (put s k (VSet m'), nat_int n)
    end
  | CSIsMember k x =>
    match vget s k with
    | Some (VSet m) => (s, RInt (if mem x m then 1 else 0))
    | Some _ => (s, WRONGTYPE)
    | None => (s, RInt 0)
    end
  | CZAdd k ps =>
    let s := purge s k in
    match lookup k (data s) with
    | Some (VZSet z) => let '(z', n) := zadd_all z ps in (put s k (VZSet z'), nat_int n)
    | Some _ => (s, WRONGTYPE)
    | None => let '(z', n) := zadd_all [] ps in (put s k (VZSet z'), nat_int n)
    end
  | CZCard k =>
    match vget s k with
    | Some (VZSet z) => (s, nat_int (List.length z))
    | Some _ => (s, WRONGTYPE)
    | None => (s, RInt 0)
    end
  (* a queued UNWATCH replayed by EXEC reaches the shard executor, which answers OK; the other
     four never reach state.execute from the connection handler *)
  | CUnwatch | CMulti | CExec | CDiscard | CWatch _ => (s, RSimple (str "OK"))
  | CUnknown name => (s, unknown_reply name)
  end.

(* pooled_fast_get / pooled_fast_set / the batch pipelines: get_direct / set_direct per key *)
Definition mfast_get (s : store) (k : bytes) : store * resp := mexec s (CGet k).
Definition mfast_set (s : store) (k v : bytes) : store * resp := mexec s (CSet k v).
Fixpoint mbatch_get (s : store) (ks : list bytes) : store * list resp :=
  match ks with
  | [] => (s, [])
  | k :: t => let '(s1, r) := mfast_get s k in let '(s2, l) := mbatch_get s1 t in (s2, r :: l)
  end.
Fixpoint mbatch_set (s : store) (ps : list (bytes * bytes)) : store * list resp :=
  match ps with
  | [] => (s, [])
  | (k, v) :: t => let '(s1, r) := mfast_set s k v in let '(s2, l) := mbatch_set s1 t in (s2, r :: l)
  end.

(* ------------------------------------------------------------------ what the state machine sees *)
Definition chan_stub (n : bytes) : bool :=
  is n "PUBLISH" || is n "SPUBLISH" || is n "SUBSCRIBE" || is n "SSUBSCRIBE" || is n "PSUBSCRIBE"
  || is n "UNSUBSCRIBE" || is n "SUNSUBSCRIBE" || is n "PUNSUBSCRIBE".
Definition other_stub (n : bytes) : bool := is n "HELLO" || is n "RESET".

Definition mkind (c : mcmd) : ckind :=
  match c with
  | CMulti => KMulti | CExec => KExec | CDiscard => KDiscard
  | CWatch ks => KWatch ks
  | CUnwatch => KUnwatch
  | CUnknown n => if chan_stub n then KStubChan else if other_stub n then KStubOther else KUnknown (lower n)
  | _ => KPlain
  end.

Definition B (s : string) : resp := RBulk (str s).
(* handle_stub_command *)
Definition mstub_reply (c : mcmd) : resp :=
  match c with
  | CUnknown n =>
    if is n "PUBLISH" || is n "SPUBLISH" then RInt 0
    else if is n "SUBSCRIBE" || is n "SSUBSCRIBE" then RArr [B "subscribe"; B "channel"; RInt 1]
    else if is n "PSUBSCRIBE" then RArr [B "psubscribe"; B "*"; RInt 1]
    else if is n "UNSUBSCRIBE" || is n "SUNSUBSCRIBE" then RArr [B "unsubscribe"; RNilBulk; RInt 0]
    else if is n "PUNSUBSCRIBE" then RArr [B "punsubscribe"; RNilBulk; RInt 0]
    else if is n "HELLO" then
      RArr [B "server"; B "redis"; B "version"; B "7.0.0"; B "proto"; RInt 2; B "id"; RInt 1;
            B "mode"; B "standalone"; B "role"; B "master"; B "modules"; RArr []]
    else if is n "RESET" then RSimple (str "RESET")
    else RError (str "ERR not implemented")
  | _ => RError (str "ERR not implemented")
  end.

(* std::str::from_utf8(b).is_ok() *)
Fixpoint utf8_valid (fuel : nat) (b : bytes) : bool :=
  match fuel with
  | O => true
  | S f =>
    match b with
    | [] => true
    | c :: t =>
      let cont x := ((128 <=? x) && (x <=? 191))%N in
      if (c <? 128)%N then utf8_valid f t
      else if ((194 <=? c) && (c <=? 223))%N then
        match t with x :: t' => cont x && utf8_valid f t' | _ => false end
      else if ((224 <=? c) && (c <=? 239))%N then
        match t with
        | x :: y :: t' =>
          (if (c =? 224)%N then ((160 <=? x) && (x <=? 191))%N
           else if (c =? 237)%N then ((128 <=? x) && (x <=? 159))%N
           else cont x) && cont y && utf8_valid f t'
        | _ => false
        end
      else if ((240 <=? c) && (c <=? 244))%N then
        match t with
        | x :: y :: z :: t' =>
          (if (c =? 240)%N then ((144 <=? x) && (x <=? 191))%N
           else if (c =? 244)%N then ((128 <=? x) && (x <=? 143))%N
           else cont x) && cont y && cont z && utf8_valid f t'
        | _ => false
        end
      else false
    end
  end.
Definition mutf8_ok (b : bytes) : bool := utf8_valid (S (List.length b)) b.

(* ------------------------------------------------------------------ the instantiated handler *)
Notation mcore := (core store mcmd) (only parsing).
Notation mconn := (conn store mcmd) (only parsing).
Definition mhandle := handle_frame store mcmd mdecode mexec mkind CGet mstub_reply.
Definition mdispatch := dispatch store mcmd mexec mkind CGet mstub_reply.
Definition mon_read := on_read mutf8_ok store mcmd mdecode mexec mfast_get mfast_set mbatch_get mbatch_set
                               mkind CGet mstub_reply.
Definition mrun (g : cfg) (reads : list bytes) : mconn := fold_left (mon_read g) reads (conn_init store mcmd m0).
Definition mreference (stream : bytes) : list resp :=
  reference store mcmd mdecode mexec mkind CGet mstub_reply m0 stream.

(* ------------------------------------------------------------------ two clients over the mini backend (C05) *)
Notation msys := (sys store mcmd) (only parsing).
Definition mstep2 := step2 store mcmd mdecode mexec mkind CGet mstub_reply.
Definition mrun2 := run2 store mcmd mdecode mexec mkind CGet mstub_reply.
Definition msys_init (s : store) : msys := mkSys _ _ s (tx_idle mcmd) (tx_idle mcmd) [] [].
Definition mget_reply := get_reply store mcmd mexec CGet.
(* a client command: an array of bulk strings *)
Definition frame (args : list bytes) : resp := RArr (map RBulk args).

(* the value a key holds *)
Definition value_of (s : store) (k : bytes) : option mval := vget s k.
(* KnownClass of finding C05-watch-nonstring: the watched key holds a non-string value both when
   WATCH is issued (state sW) and when EXEC is issued (state sE) *)
Definition holds_nonstring (s : store) (k : bytes) : bool :=
  match vget s k with
  | Some (VStr _) | None => false
  | Some _ => true
  end.
Definition nonstring_at_both (sW sE : store) (k : bytes) : bool := holds_nonstring sW k && holds_nonstring sE k.

(* ------------------------------------------------------------------ the executor-level transaction machine *)
(* what WATCH stores: the value under the key (any type), absent once expired *)
Fixpoint bytes_list_eqb (a b : list bytes) : bool :=
  match a, b with
  | [], [] => true
  | x :: a', y :: b' => bytes_eqb x y && bytes_list_eqb a' b'
  | _, _ => false
  end.
(* association lists without repeated keys, compared as maps *)
Definition assoc_eqb {B} (f : B -> B -> bool) (a b : list (bytes * B)) : bool :=
  (List.length a =? List.length b)%nat
  && forallb (fun p => match lookup (fst p) b with Some y => f (snd p) y | None => false end) a.
(* lists without repetitions, compared as sets *)
Definition set_eqb (a b : list bytes) : bool :=
  (List.length a =? List.length b)%nat && forallb (fun x => mem x b) a.
(* Value's PartialEq: lists by position, hashes / sets / sorted sets by content *)
Definition mval_eqb (a b : mval) : bool :=
  match a, b with
  | VStr x, VStr y => bytes_eqb x y
  | VList x, VList y => bytes_list_eqb x y
  | VHash x, VHash y => assoc_eqb bytes_eqb x y
  | VSet x, VSet y => set_eqb x y
  | VZSet x, VZSet y => assoc_eqb Z.eqb x y
  | _, _ => false
  end.
Definition omval_eqb (a b : option mval) : bool :=
  match a, b with
  | None, None => true
  | Some x, Some y => mval_eqb x y
  | _, _ => false
  end.
Notation mxstate := (xstate mstate mcmd (option mval)) (only parsing).
Definition mx_step := x_step mstate mcmd (option mval) mexec mkind vget omval_eqb.

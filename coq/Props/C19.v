(* C19 - Key placement is a function of membership; selective gossip reaches every owner.
   This file holds only the property statements; proofs live in Proofs/RingProofs.v.

   Every statement is for an ARBITRARY position function of virtual nodes [vpos] and of
   keys [kpos] (the code uses SipHash-1-3: Ring.sip_vpos / Ring.sip_kpos), for every ring
   the API can produce ([run vpos (ring_empty vn rf) ops] for any list of add_node /
   remove_node calls, or [ring_new]), every key position, every rf, and every index [o]
   the binary search may return among equal positions. *)
From Coq Require Import NArith List Bool Sorting.Permutation.
From RV Require Import Lib.Hex Lib.SipHash Model.Ring Proofs.RingProofs.
Import ListNotations.
Local Open Scope bool_scope.
Local Open Scope N_scope.

(* ---- placement is a function of the membership set ---------------------------------- *)

(* Two rings built by HashRing::new from two join orders of the same members are equal as
   ring vectors and answer every replica query identically. *)
Theorem C19_ring_perm : forall vpos (ns1 ns2 : list N) (vn rf : N),
  Permutation ns1 ns2 -> NoDup ns1 -> positions_distinct vpos ns1 vn ->
  r_ring (ring_new vpos ns1 vn rf) = r_ring (ring_new vpos ns2 vn rf) /\
  forall kp rf' o1 o2,
    replicas_at (ring_new vpos ns1 vn rf) kp rf' o1 = replicas_at (ring_new vpos ns2 vn rf) kp rf' o2.
Proof. exact ring_perm. Qed.
Print Assumptions C19_ring_perm.

(* The same for arbitrary histories of joins and leaves: whatever sequences of add_node /
   remove_node two nodes went through, if they end with the same membership set they hold
   the same ring and compute the same ordered replica list for every key and rf. *)
Theorem C19_placement_function_of_membership : forall vpos (vn rf1 rf2 : N) (ops1 ops2 : list op),
  let R1 := run vpos (ring_empty vn rf1) ops1 in
  let R2 := run vpos (ring_empty vn rf2) ops2 in
  Permutation (r_nodes R1) (r_nodes R2) ->
  positions_distinct vpos (r_nodes R1) vn ->
  r_ring R1 = r_ring R2 /\
  forall kp rf o1 o2, replicas_at R1 kp rf o1 = replicas_at R2 kp rf o2.
Proof. exact reach_placement. Qed.
Print Assumptions C19_placement_function_of_membership.

(* With pairwise distinct positions the index returned by binary_search is unique, so the
   unspecified choice among equal elements never matters. *)
Theorem C19_search_choice_irrelevant : forall vpos (vn rf0 : N) (ops : list op) kp rf o,
  let R := run vpos (ring_empty vn rf0) ops in
  positions_distinct vpos (r_nodes R) vn ->
  replicas_at R kp rf o = replicas_at R kp rf 0.
Proof. exact reach_search_choice. Qed.
Print Assumptions C19_search_choice_irrelevant.

(* ---- the replica list has exactly min(rf, cluster size) distinct members ------------- *)
Theorem C19_replicas_shape : forall vpos (vn rf0 : N) (ops : list op) kp rf o,
  let R := run vpos (ring_empty vn rf0) ops in
  let l := replicas_at R kp rf o in
  NoDup l /\ incl l (r_nodes R) /\
  (0 < vn -> length l = Nat.min (N.to_nat rf) (length (r_nodes R))).
Proof. exact reach_shape. Qed.
Print Assumptions C19_replicas_shape.

(* ---- minimal disruption --------------------------------------------------------------- *)
(* A node x joins: the replica list of a key changes only if x is in the new list. *)
Theorem C19_minimal_disruption_add : forall vpos (vn rf0 : N) (ops : list op) x kp rf o1 o2,
  let R := run vpos (ring_empty vn rf0) ops in
  ~ In x (r_nodes R) ->
  positions_distinct vpos (x :: r_nodes R) vn ->
  ~ In x (replicas_at (add_node vpos R x) kp rf o1) ->
  replicas_at (add_node vpos R x) kp rf o1 = replicas_at R kp rf o2.
Proof. exact reach_disruption_add. Qed.
Print Assumptions C19_minimal_disruption_add.

(* A node x leaves: the replica list of a key changes only if x was in the old list. *)
Theorem C19_minimal_disruption_remove : forall vpos (vn rf0 : N) (ops : list op) x kp rf o1 o2,
  let R := run vpos (ring_empty vn rf0) ops in
  positions_distinct vpos (r_nodes R) vn ->
  ~ In x (replicas_at R kp rf o1) ->
  replicas_at (remove_node R x) kp rf o2 = replicas_at R kp rf o1.
Proof. exact reach_disruption_remove. Qed.
Print Assumptions C19_minimal_disruption_remove.

(* ---- selective gossip: every owner other than the sender, and nobody else ------------- *)
(* For a router that knows an address for every other member: what target t is handed is
   exactly the sub-list of the batch (order and multiplicity kept) of deltas whose replica
   list contains t - nothing if t is the sender; and the table has an entry for t exactly
   when that list is non-empty. *)
Theorem C19_selective_exact : forall vpos kpos (vn rf0 : N) (ops : list op) me peers sel os deltas,
  let r := Router (run vpos (ring_empty vn rf0) ops) me peers sel in
  knows_members r ->
  (forall t, deliveries (route_selective kpos r os deltas) t = owed kpos r os deltas t) /\
  (forall t ds, In (t, ds) (route_selective kpos r os deltas) <->
                ds = owed kpos r os deltas t /\ ds <> []).
Proof. exact reach_selective_exact. Qed.
Print Assumptions C19_selective_exact.

(* GossipState::queue_deltas in selective mode appends, per call and for any iteration
   order [ord] of the routing HashMap: one targeted message per node that is owed
   something, carrying exactly what it is owed, and nothing else (queue below capacity). *)
Theorem C19_queue_deltas_covers : forall vpos kpos (vn rf0 : N) (ops : list op) me peers ord os g deltas,
  let r := Router (run vpos (ring_empty vn rf0) ops) me peers true in
  g_router g = Some r -> deltas <> [] -> knows_members r ->
  Permutation (ord (route_selective kpos r os deltas)) (route_selective kpos r os deltas) ->
  N.of_nat (length (g_queue g)) + N.of_nat (length (route_selective kpos r os deltas)) <= MAX_OUTBOUND_QUEUE ->
  exists msgs,
    g_queue (queue_deltas kpos ord os g deltas) = g_queue g ++ msgs /\
    NoDup (map fst msgs) /\
    forall m, In m msgs <->
              exists t, m = (Some t, TargetedDelta (g_id g) t (owed kpos r os deltas t) (g_epoch g)) /\
                        owed kpos r os deltas t <> [].
Proof. exact reach_queue_covers. Qed.
Print Assumptions C19_queue_deltas_covers.

(* No owner is starved of an update. *)
Theorem C19_no_owner_starved : forall vpos kpos (vn rf0 : N) (ops : list op) me peers ord os g deltas d t,
  let r := Router (run vpos (ring_empty vn rf0) ops) me peers true in
  g_router g = Some r -> knows_members r ->
  Permutation (ord (route_selective kpos r os deltas)) (route_selective kpos r os deltas) ->
  N.of_nat (length (g_queue g)) + N.of_nat (length (route_selective kpos r os deltas)) <= MAX_OUTBOUND_QUEUE ->
  In d deltas -> In t (get_replicas kpos (gr_ring r) (d_key d) (os (kpos (d_key d)))) -> t <> me ->
  exists ds, In (Some t, TargetedDelta (g_id g) t ds (g_epoch g)) (g_queue (queue_deltas kpos ord os g deltas)) /\
             In d ds.
Proof. exact reach_no_owner_starved. Qed.
Print Assumptions C19_no_owner_starved.

(* Routing reads a delta's key only.  Rewriting the other fields of the deltas (payload,
   source_replica = the replica an update originated on) with any function that keeps keys
   rewrites the routed copies and changes nothing else: the node left out of a delta's
   targets is the SENDER, never the origin, so relayed deltas reach their origin too. *)
Theorem C19_route_independent_of_origin : forall kpos (g : list N * (N * N) -> list N * (N * N)) r os deltas,
  (forall d, d_key (g d) = d_key d) ->
  route_selective kpos r os (map g deltas) =
  map (fun p => (fst p, map g (snd p))) (route_selective kpos r os deltas).
Proof. exact route_independent_of_origin. Qed.
Print Assumptions C19_route_independent_of_origin.

(* Broadcast mode: every known peer other than self gets the whole batch. *)
Theorem C19_broadcast_exact : forall (r : router) deltas t,
  deliveries (route_broadcast r deltas) t =
  if has_peer r t && negb (t =? gr_me r) then deltas else [].
Proof. exact route_broadcast_deliveries. Qed.
Print Assumptions C19_broadcast_exact.

(* ---- GossipRouter::from_config ------------------------------------------------------- *)
(* (Before /repo commit c7b807a the arithmetic was off by one: member 1 of 3 filed its
   peers under {1,3}; found by this check, see known_findings.jsonl.)
   The i-th configured address is filed under [peer_id_of rid i]; for 1-based ids - member
   rid of the cluster 1..n, n = npeers + 1 - these are exactly the other members' ids, in
   increasing order. *)
Theorem C19_from_config_ids : forall rid npeers,
  from_config_peers rid npeers = map (fun i => (peer_id_of rid i, i)) (nseq npeers) /\
  (forall i j, i < j -> peer_id_of rid i < peer_id_of rid j) /\
  (1 <= rid <= npeers + 1 ->
   forall t, In t (map fst (from_config_peers rid npeers)) <-> 1 <= t <= npeers + 1 /\ t <> rid).
Proof.
  exact (fun rid npeers => conj (from_config_peers_eq rid npeers)
          (conj (peer_id_of_mono rid) (fun H t => from_config_ids rid npeers t H))).
Qed.
Print Assumptions C19_from_config_ids.

(* Hence a router made by from_config for member rid, over a ring holding members of 1..n,
   knows every other member, and its selective routing is exact. *)
Theorem C19_from_config_exact : forall vpos kpos (vn rf0 : N) (ops : list op) rid npeers sel part en os deltas,
  let R := run vpos (ring_empty vn rf0) ops in
  let r := from_config rid npeers sel part en R in
  1 <= rid <= npeers + 1 ->
  (forall x, In x (r_nodes R) -> 1 <= x <= npeers + 1) ->
  knows_members r /\
  forall t, deliveries (route_selective kpos r os deltas) t = owed kpos r os deltas t.
Proof. exact reach_from_config_exact. Qed.
Print Assumptions C19_from_config_exact.

(* ---- the hypotheses are satisfiable, the statements are not vacuous ------------------- *)
(* The code's SipHash positions of {1,2,3} + joining node 4 (4 vnodes each) are pairwise
   distinct; when 4 joins, key "k0" moves (and gains 4) while key "k1" stays. *)
Example C19_nonvacuous :
  positions_distinct sip_vpos [4; 1; 2; 3] 4 /\
  get_replicas sip_kpos ex_R3 ex_k0 0 = [2; 1] /\
  get_replicas sip_kpos (add_node sip_vpos ex_R3 4) ex_k0 0 = [4; 2] /\
  get_replicas sip_kpos ex_R3 ex_k1 0 = [3; 2] /\
  get_replicas sip_kpos (add_node sip_vpos ex_R3 4) ex_k1 0 = [3; 2].
Proof. exact (conj ex_positions_distinct ex_disruption). Qed.
Print Assumptions C19_nonvacuous.

(* Remark: the distinctness hypothesis is needed - if two virtual nodes collide on the ring,
   the stable sort keeps them in join order and placement depends on the join order. *)
Example C19_tie_depends_on_join_order :
  let collide := fun _ _ : N => 7 in
  replicas_at (ring_new collide [1; 2] 1 1) 0 1 0 = [1] /\
  replicas_at (ring_new collide [2; 1] 1 1) 0 1 0 = [2].
Proof. exact tie_depends_on_join_order. Qed.
Print Assumptions C19_tie_depends_on_join_order.

(* C16 - a command means the same via every entry path (statements only). *)
From Coq Require Import NArith ZArith List String Bool.
From RV Require Import Lib.Hex Model.CmdGrammar Proofs.CmdGrammarProofs.
Import ListNotations.

Theorem C16_names_distinct : nodupb (names grammar) = true.
Proof. exact grammar_names_distinct. Qed.
Print Assumptions C16_names_distinct.

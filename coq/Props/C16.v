(* C16 - a command means the same via every entry path (both parsers, Lua redis.call).
   The theorems are laws of the ONE reference grammar Model/CmdGrammar.v (table [grammar],
   interpreter [parse_frame]); that Command::from_resp, Command::from_resp_zero_copy and the
   redis.call translator each equal this grammar is decided by the correspondence
   (Corr/C16.v, harness/src/bin/c16.rs), not by a theorem.  Statements only. *)
From Coq Require Import NArith ZArith List String Bool.
From RV Require Import Lib.Hex Model.CmdGrammar Proofs.CmdGrammarProofs.
Import ListNotations.
Local Open Scope string_scope.
Local Open Scope list_scope.

(* ---- one outcome per frame.  [parses f r]: "some row of the table named like the frame's
   first element yields r, or no row has that name and r is Unknown(name)".  The relation is
   functional and is what the interpreter computes: no two rows match one name. *)
Theorem C16_parse_deterministic :
  forall f r1 r2, parses f r1 -> parses f r2 -> r1 = r2.
Proof. exact parse_deterministic. Qed.
Print Assumptions C16_parse_deterministic.

Theorem C16_parse_frame_is_the_relation :
  forall f r, parses f r <-> r = parse_frame f.
Proof. intros f r. split; [apply parses_functional|intros ->; apply parses_parse_frame]. Qed.
Print Assumptions C16_parse_frame_is_the_relation.

Theorem C16_names_distinct :
  NoDup (names grammar)
  /\ Forall (fun ct => NoDup (names (snd ct))) subtables
  /\ (forall n r, In (n, r) grammar -> lookup n grammar = Some r).
Proof.
  split; [apply nodupb_NoDup, grammar_names_distinct|]. split; [|exact grammar_lookup].
  apply Forall_forall. intros ct H. apply nodupb_NoDup.
  pose proof subtables_nodup as HN. rewrite forallb_forall in HN. exact (HN _ H).
Qed.
Print Assumptions C16_names_distinct.

(* ---- letter case.  [case_variant n n']: same length, bytewise equal up to the case of
   ASCII letters (n may hold any bytes).  More generally the outcome depends on the command
   name only through its upper-cased UTF-8 decoding. *)
Theorem C16_name_case_insensitive :
  forall n n' args, case_variant n n' ->
    parse_frame (Some (EBulk n :: args)) = parse_frame (Some (EBulk n' :: args)).
Proof. exact name_case_insensitive_any. Qed.
Print Assumptions C16_name_case_insensitive.

Theorem C16_name_only_through_upper :
  forall n n' args, ustr n = ustr n' ->
    parse_frame (Some (EBulk n :: args)) = parse_frame (Some (EBulk n' :: args)).
Proof. exact name_only_through_ustr. Qed.
Print Assumptions C16_name_only_through_upper.

(* ---- parse (unparse c) = c for every canonical command of the model, with every command
   name, subcommand and option keyword the printer emits rewritten by any [k] that keeps
   their upper-cased decoding (any letter-case variation of the keywords). *)
Theorem C16_parse_unparse :
  forall (k : bytes -> bytes), (forall w, ustr (k w) = ustr w) ->
  forall c, canonical c = true ->
    exists ps, unparse_k k c = Some ps /\ parse_cmd ps = POk c.
Proof. exact parse_unparse_k. Qed.
Print Assumptions C16_parse_unparse.

Corollary C16_parse_unparse_any_keyword_case :
  forall (k : bytes -> bytes), (forall w, case_variant w (k w)) ->
  forall c, canonical c = true ->
    exists ps, unparse_k k c = Some ps /\ parse_cmd ps = POk c.
Proof. exact parse_unparse_any_case. Qed.
Print Assumptions C16_parse_unparse_any_keyword_case.

Corollary C16_parse_unparse_lower_case_keywords :
  forall c, canonical c = true ->
    exists ps, unparse_k lower_kw c = Some ps /\ parse_cmd ps = POk c.
Proof. exact (parse_unparse_k lower_kw lower_kw_ok). Qed.
Print Assumptions C16_parse_unparse_lower_case_keywords.

(* ---- arity: a row's arity window is checked before anything else and answers that row's
   arity text *)
Theorem C16_arity_error :
  forall n rl args name,
    In (name, rl) grammar -> ustr n = name -> arity_ok rl (List.length args) = false ->
    parse_frame (Some (EBulk n :: args)) = PErr (arity_text rl).
Proof. exact arity_error. Qed.
Print Assumptions C16_arity_error.

(* ---- totality without panics (the model's PPanic outcome is unreachable since the repairs
   b9ac17d and ac9d92c; before them EVAL s -1 and SCAN 0 MATCH reached it) *)
Theorem C16_no_panic : forall f, parse_frame f <> PPanic.
Proof. exact no_panic. Qed.
Print Assumptions C16_no_panic.

Theorem C16_eval_negative_numkeys :
  forall name s z rest,
    (name = tx "EVAL" \/ name = tx "EVALSHA") -> (z < 0)%Z -> in_range I64_MIN I64_MAX z = true ->
    exists c, parse_cmd (name :: s :: itoa z :: rest) = PErr c
              /\ c = tx "ERR Number of keys can't be negative".
Proof. exact eval_negative_numkeys. Qed.
Print Assumptions C16_eval_negative_numkeys.

(* ---- the Lua bridge: on the names redis.call knows it is the same grammar *)
Theorem C16_lua_parse_eq_parse :
  forall n rest, lua_supported (ustr n) = true -> lua_parse (n :: rest) = parse_cmd (n :: rest).
Proof. exact lua_parse_eq_parse. Qed.
Print Assumptions C16_lua_parse_eq_parse.

Theorem C16_lua_no_panic : forall parts, lua_parse parts <> PPanic.
Proof. exact lua_no_panic. Qed.
Print Assumptions C16_lua_no_panic.

(* for ANY executor: a script call runs the executor on the same command, so the keyspace
   after it is the keyspace after the direct call, and the reply is the converted reply *)
Theorem C16_script_call_eq_direct :
  forall (state : Type) (exec : state -> cmd -> state * resp) s n rest,
    lua_supported (ustr n) = true ->
    (forall t, parse_cmd (n :: rest) = PErr t -> lossy t = t) ->
    script_call state exec s (n :: rest) =
      (fst (direct_call state exec s (n :: rest)),
       match parse_cmd (n :: rest) with
       | POk _ => conv (snd (direct_call state exec s (n :: rest)))
       | _ => snd (direct_call state exec s (n :: rest))
       end).
Proof.
  intros state exec s n rest H HU. apply script_call_eq_direct; auto. apply no_panic.
Qed.
Print Assumptions C16_script_call_eq_direct.

(* known finding C16-lua-command-subset: outside the 34 names the bridge refuses what a
   client can send *)
Theorem C16_lua_subset_refuted :
  exists parts c t, parse_cmd parts = POk c /\ lua_parse parts = PErr t.
Proof.
  exists [tx "SUBSTR"; tx "j"; tx "2"; tx "-1"]. do 2 eexists. exact lua_subset_witness.
Qed.
Print Assumptions C16_lua_subset_refuted.

Theorem C16_lua_refuses_outside_subset :
  forall n rest, lua_supported (ustr n) = false ->
    lua_parse (n :: rest) = PErr (tx "ERR Unknown Redis command '" ++ ustr n ++ tx "' called from Lua").
Proof. exact lua_parse_refuses. Qed.
Print Assumptions C16_lua_refuses_outside_subset.

(* ---- value conversion.  lua_to_resp (resp_to_lua v) = v whenever v holds no nil array, no
   nil bulk inside an array, and its status/error texts are valid UTF-8 on one line. *)
Theorem C16_conv_roundtrip :
  forall v, conv_ok v = true -> lua_to_resp (resp_to_lua v) = v.
Proof. exact conv_roundtrip. Qed.
Print Assumptions C16_conv_roundtrip.

(* the nil exception (known finding C16-lua-nil-not-false): the code hands a nil bulk to the
   script as nil, so an array ends at its first nil on the way back; with Redis' documented
   nil -> false the round trip also holds for arrays that contain nil bulks *)
Theorem C16_conv_nil_exception :
  let v := RArr (Some [RBulk (Some [97%N]); RBulk None; RBulk (Some [99%N])]) in
  lua_to_resp (resp_to_lua v) = RArr (Some [RBulk (Some [97%N])])
  /\ lua_to_resp (resp_to_lua_redis v) = v
  /\ lua_to_resp (resp_to_lua (RArr None)) = RBulk None.
Proof. exact conv_nil_exception. Qed.
Print Assumptions C16_conv_nil_exception.

Theorem C16_nil_reaches_script_as_nil :
  resp_to_lua (RBulk None) = LNil /\ resp_to_lua_redis (RBulk None) = LBool false.
Proof. exact nil_reaches_script_as_nil. Qed.
Print Assumptions C16_nil_reaches_script_as_nil.

Theorem C16_conv_roundtrip_with_redis_nil :
  forall v, conv_ok_redis v = true -> lua_to_resp (resp_to_lua_redis v) = v.
Proof. exact conv_roundtrip_redis. Qed.
Print Assumptions C16_conv_roundtrip_with_redis_nil.

(* ---- the hypotheses are satisfiable by non-trivial instances *)
Example C16_example_set :
  let c := Cmd "Set" [VS (tx "k"); VB [0%N; 255%N]; VOpt None; VOpt (Some (VI (-5)%Z)); VOpt None;
                      VOpt None; VFlag false; VFlag true; VFlag true; VFlag false] in
  canonical c = true
  /\ unparse_k lower_kw c = Some [tx "set"; tx "k"; [0%N; 255%N]; tx "xx"; tx "get"; tx "px"; tx "-5"]
  /\ parse_cmd [tx "sEt"; tx "k"; [0%N; 255%N]; tx "Px"; tx "-5"; tx "GET"; tx "xX"; tx "get"] = POk c
  /\ parse_cmd [tx "SET"; tx "k"; tx "v"; tx "NX"; tx "XX"]
     = PErr (tx "ERR XX and NX options at the same time are not compatible")
  /\ parse_cmd [tx "set"] = PErr (tx "SET requires at least 2 arguments").
Proof. repeat split; vm_compute; reflexivity. Qed.
Print Assumptions C16_example_set.

Example C16_example_numbers_and_names :
  parse_cmd [tx "scan"; tx "18446744073709551616"] = PErr (tx "number too large to fit in target type")
  /\ parse_cmd [tx "Scan"; tx "0"; tx "COUNT"; tx "-1"]
     = POk (Cmd "Scan" [VI 0; VOpt None; VOpt (Some (VI 18446744073709551615))])
  /\ parse_cmd [tx "INCRBYFLOAT"; tx "k"; tx "1.7976931348623158e308"]
     = POk (Cmd "IncrByFloat" [VS (tx "k"); VF (tx "1.7976931348623158e308")])
  /\ parse_cmd [tx "INCRBYFLOAT"; tx "k"; tx "1.797693134862315808e308"]
     = PErr (tx "ERR increment would produce NaN or Infinity")
  /\ parse_cmd [[239; 172; 130] ++ tx "ushall"]%N = POk (Cmd "FlushAll" [])
  /\ parse_cmd [tx "get"; [255%N]] = POk (Cmd "Get" [VS [239; 191; 189]%N])
  /\ lua_parse [tx "expire"; tx "s"; tx "0"; tx "Xx"]
     = POk (Cmd "Expire" [VS (tx "s"); VI 0; VFlag false; VFlag true; VFlag false; VFlag false])
  /\ lua_to_resp (resp_to_lua (RArr (Some [RSimple_ (tx "OK"); RInt 7; RArr (Some [RBulk (Some [0%N])])])))
     = RArr (Some [RSimple_ (tx "OK"); RInt 7; RArr (Some [RBulk (Some [0%N])])]).
Proof. repeat split; vm_compute; reflexivity. Qed.
Print Assumptions C16_example_numbers_and_names.

(* C10 - WAL recovery yields only intact appended entries; truncation keeps newer ones.
   Only the property statements; proofs are in Proofs/WalProofs.v.  Every theorem is stated for
   an ARBITRARY checksum function [crc] (nothing about CRC-32 is assumed); where detection of
   altered bytes is claimed, the needed inequality of checksums is an explicit hypothesis.
   Format constants come from Gen/Consts.v (regenerated from wal.rs on every run). *)
From Coq Require Import NArith List Permutation Sorted.
From RV Require Import Lib.Hex Lib.Bytes Lib.Crc32 Gen.Consts Model.Wal Proofs.WalProofs.
Import ListNotations.
Local Open Scope N_scope.

(* What was written is what is read: all entry lists, all payloads, all stamps. *)
Theorem C10_read_roundtrip : forall (crc : bytes -> N) seq es,
  seq < U64 -> Forall (wf_entry crc) es ->
  wal_read crc (file_image seq es) = Ok (seq, es).
Proof. exact read_roundtrip. Qed.
Print Assumptions C10_read_roundtrip.

(* Torn tail: for EVERY prefix length k of a file image, reading yields exactly the entries
   that lie wholly inside the prefix - bit-identical, in order, nothing else; a prefix shorter
   than the header is an unreadable file (an error, not a panic).  No assumption on crc. *)
Theorem C10_torn_tail : forall (crc : bytes -> N) seq es (k : nat),
  seq < U64 -> Forall (wf_entry crc) es ->
  let img := file_image seq es in
  ((k < 16)%nat -> wal_read crc (firstn k img) = Err WCorrupt) /\
  ((16 <= k)%nat -> wal_read crc (firstn k img) = Ok (seq, firstn (count_whole es (k - 16)) es)).
Proof. exact torn_tail. Qed.
Print Assumptions C10_torn_tail.

(* Reading arbitrary bytes never panics and never exhausts the loop fuel. *)
Theorem C10_read_total : forall (crc : bytes -> N) img,
  wal_read crc img = Err WCorrupt \/ exists s es, wal_read crc img = Ok (s, es).
Proof. exact wal_read_cases. Qed.
Print Assumptions C10_read_total.

(* Whatever bytes are on disk (any damage whatsoever): every entry that is returned is
   literally there - encoded, contiguous, in order, directly after the 16 header bytes - and
   its stored checksum is the checksum of its data. *)
Theorem C10_recovered_entries_are_on_disk : forall (crc : bytes -> N) img s es,
  Forall byte_lt img -> wal_read crc img = Ok (s, es) ->
  exists hdr tail, img = hdr ++ concat (map encode_entry es) ++ tail /\ lenN hdr = 16 /\
                   Forall (fun e => e_crc e = crc (e_data e)) es.
Proof. exact wal_read_sound. Qed.
Print Assumptions C10_recovered_entries_are_on_disk.

(* The reader stops at the first position that does not decode and returns what precedes it. *)
Theorem C10_damaged_entry_stops : forall (crc : bytes -> N) seq es tail,
  seq < U64 -> Forall (wf_entry crc) es ->
  (tail = [] \/ decode_entry crc tail = Ok None) ->
  wal_read crc (file_header seq ++ concat (map encode_entry es) ++ tail) = Ok (seq, es).
Proof. exact wal_read_stops. Qed.
Print Assumptions C10_damaged_entry_stops.

(* Payload of one entry altered (any bytes of the same length) and the checksum of the new
   bytes differs from the stored one [named hypothesis: no collision for this pair]:
   recovery of the file is exactly the entries before it, whatever follows. *)
Theorem C10_payload_corruption_stops : forall (crc : bytes -> N) seq es1 e data' rest,
  seq < U64 -> Forall (wf_entry crc) es1 -> wf_entry crc e ->
  lenN data' = lenN (e_data e) ->
  crc data' <> e_crc e ->
  wal_read crc (file_header seq ++ concat (map encode_entry es1) ++
                (entry_header (lenN (e_data e)) (e_ts e) (e_crc e) ++ data' ++ rest))
  = Ok (seq, es1).
Proof. exact payload_corruption_stops. Qed.
Print Assumptions C10_payload_corruption_stops.

(* Stored checksum altered: rejected outright (no assumption on crc). *)
Theorem C10_checksum_corruption_stops : forall (crc : bytes -> N) seq es1 e ck' rest,
  seq < U64 -> Forall (wf_entry crc) es1 -> wf_entry crc e -> ck' < U32 -> ck' <> e_crc e ->
  wal_read crc (file_header seq ++ concat (map encode_entry es1) ++
                (entry_header (lenN (e_data e)) (e_ts e) ck' ++ e_data e ++ rest))
  = Ok (seq, es1).
Proof. exact checksum_corruption_stops. Qed.
Print Assumptions C10_checksum_corruption_stops.

(* Length field altered: the entry is re-framed over [body] (everything after its header);
   it is rejected when the bytes run out or when the checksum of the re-framed data differs. *)
Theorem C10_length_corruption_stops : forall (crc : bytes -> N) seq es1 e len' body,
  seq < U64 -> Forall (wf_entry crc) es1 -> wf_entry crc e -> len' < U32 ->
  (lenN body < len' \/ crc (takeN len' body) <> e_crc e) ->
  wal_read crc (file_header seq ++ concat (map encode_entry es1) ++
                (entry_header len' (e_ts e) (e_crc e) ++ body))
  = Ok (seq, es1).
Proof. exact length_corruption_stops. Qed.
Print Assumptions C10_length_corruption_stops.

(* The 16 bytes of the file header: damage there makes the file unreadable or changes nothing
   in the entries read (flags, reserved bytes and the sequence field are not used). *)
Theorem C10_file_header_damage : forall (crc : bytes -> N) h es,
  lenN h = 16 -> Forall (wf_entry crc) es ->
  wal_read crc (h ++ concat (map encode_entry es)) = Err WCorrupt \/
  exists s, wal_read crc (h ++ concat (map encode_entry es)) = Ok (s, es).
Proof. exact file_header_damage. Qed.
Print Assumptions C10_file_header_damage.

(* KNOWN FINDING C10-entry-header-unprotected.  The timestamp field is outside the checksum:
   for every checksum function, an image whose only difference is the stamp of one entry is
   accepted and yields an entry that was never appended. *)
Theorem C10_stamp_corruption_accepted : forall (crc : bytes -> N) seq es1 e es2 ts',
  seq < U64 -> Forall (wf_entry crc) es1 -> wf_entry crc e -> Forall (wf_entry crc) es2 -> ts' < U64 ->
  wal_read crc (file_header seq ++ concat (map encode_entry es1) ++
                (entry_header (lenN (e_data e)) ts' (e_crc e) ++ e_data e) ++
                concat (map encode_entry es2))
  = Ok (seq, es1 ++ set_ts e ts' :: es2).
Proof. exact stamp_corruption_accepted. Qed.
Print Assumptions C10_stamp_corruption_accepted.

(* ... so "recovery returns a prefix of what was appended" is refuted inside the class
   [HeaderFieldDamage] (witness with the real CRC-32: stamp 9 read back as 73). *)
Theorem C10_header_field_refuted : exists seq es img' es',
  HeaderFieldDamage seq es img' /\ wal_read crc32 img' = Ok (seq, es') /\ ~ is_prefix es' es.
Proof.
  exact (ex_intro _ 1 (ex_intro _ wit_es (ex_intro _ wit_img' (ex_intro _ [Entry 73 [] 0] header_field_witness)))).
Qed.
Print Assumptions C10_header_field_refuted.

(* KNOWN FINDING C10-wal-zero-header-is-an-entry.  For every checksum function that maps the empty
   string to 0 (CRC-32 does), a header with length 0 and checksum 0 - in particular sixteen zero
   bytes - is a well-formed empty entry; with the real CRC-32 a header-only file followed by 32
   zero bytes is read as two entries that were never appended. *)
Theorem C10_zero_header_is_an_entry : forall (crc : bytes -> N), crc [] = 0 ->
  forall ts rest, ts < U64 ->
  decode_entry crc (entry_header 0 ts 0 ++ rest) = Ok (Some (Entry ts [] 0, 16)).
Proof. intros crc H0 ts rest Hts. exact (decode_empty_header crc ts rest Hts H0). Qed.
Print Assumptions C10_zero_header_is_an_entry.

Example C10_zero_tail_read_as_entries :
  wal_read crc32 (file_image 1 [] ++ repeat 0 32) = Ok (1, [Entry 0 [] 0; Entry 0 [] 0]).
Proof. exact zero_tail_witness. Qed.
Print Assumptions C10_zero_tail_read_as_entries.

(* recover_all_entries = concatenation, in sequence order (stable), of each file's own result *)
Theorem C10_recover_all_in_sequence_order : forall (crc : bytes -> N) st,
  recover_all crc st = Ok (concat (map (contrib crc) (sorted_files st))) /\
  Permutation (sorted_files st) (wal_files st) /\
  Sorted key_le (sorted_files st).
Proof.
  intros crc st. exact (conj (recover_all_eq crc st) (conj (sort_perm _) (sort_sorted _))).
Qed.
Print Assumptions C10_recover_all_in_sequence_order.

(* Independence of files: replacing the bytes of one file by ANY bytes changes only that file's
   block; what precedes and what follows it in the result is the same for every content. *)
Theorem C10_files_independent : forall (crc : bytes -> N) st1 name st2,
  exists pre post, forall img,
    recover_all crc (st1 ++ (name, img) :: st2) =
    Ok (pre ++ (match parse_wal_sequence name with Some _ => file_entries crc img | None => [] end) ++ post).
Proof. exact files_independent. Qed.
Print Assumptions C10_files_independent.

(* A damaged file never hides another file: every file whose name parses contributes all of
   its own entries as one block, whatever the rest of the directory contains. *)
Theorem C10_contribution_present : forall (crc : bytes -> N) st n img s,
  In (n, img) st -> parse_wal_sequence n = Some s ->
  exists pre post, recover_all crc st = Ok (pre ++ file_entries crc img ++ post).
Proof. exact contribution_present. Qed.
Print Assumptions C10_contribution_present.

(* truncate_before, for every directory (names distinct), every stamp layout, every threshold,
   with or without an active writer, and whichever delete calls fail: never panics, only
   removes files, never removes the active file, and every entry stamped later than T that was
   recoverable before is recoverable after. *)
Theorem C10_truncate_safe : forall (crc : bytes -> N) st active T dfail st' r,
  NoDup (map fst st) -> truncate_before crc st active T dfail = (st', r) ->
  r <> Panic /\
  (forall f, In f st' -> In f st) /\
  (forall a img, active = Some a -> In (wal_file_name a, img) st -> In (wal_file_name a, img) st') /\
  exists l l', recover_all crc st = Ok l /\ recover_all crc st' = Ok l' /\
               (forall e, In e l -> T < e_ts e -> In e l').
Proof. exact truncate_safe. Qed.
Print Assumptions C10_truncate_safe.

(* Exact form: the sub-list of entries stamped later than T is the same before and after
   (same entries, same order, same multiplicity). *)
Theorem C10_truncate_exact : forall (crc : bytes -> N) st active T dfail st' r,
  NoDup (map fst st) -> truncate_before crc st active T dfail = (st', r) ->
  exists l l', recover_all crc st = Ok l /\ recover_all crc st' = Ok l' /\
    filter (fun e => T <? e_ts e) l' = filter (fun e => T <? e_ts e) l.
Proof. exact truncate_exact. Qed.
Print Assumptions C10_truncate_exact.

(* The hypotheses are satisfiable: concrete well-formed entries under the real CRC-32. *)
Example C10_nonvacuous :
  Forall (wf_entry crc32) [mk_entry crc32 9 [1; 2; 3]; mk_entry crc32 4 []; mk_entry crc32 7 [255]].
Proof. exact wf_example. Qed.
Print Assumptions C10_nonvacuous.

(* C03 (stage 1) *)
From Coq Require Import NArith List.
From RV Require Import Lib.Hex Lib.SipHash Model.Shard.
Import ListNotations.
Local Open Scope N_scope.

Theorem routes_agree_refuted : exists k n, route_str k n <> route_bytes k n.
Proof. exists [102; 111; 111], 16. vm_compute. discriminate. Qed.
Print Assumptions routes_agree_refuted.

(* C03 - shard count is unobservable: N shards answer exactly like one shard.
   Statements only; proofs are in Proofs/ShardProofs.v.  Model: Model/Shard.v (routing and the
   dispatcher of production/sharded_actor.rs, generic in the per-shard executor), Model/MiniKV.v
   (a concrete executor), Gen/KeyTable.v (regenerated from command.rs / sharded_actor.rs). *)
From stdpp Require Import gmap.
From Coq Require Import NArith ZArith String.
From RV Require Import Lib.Hex Lib.SipHash Gen.KeyTable Model.Shard Model.MiniKV Proofs.ShardProofs Proofs.ShardWitness.

(* Both routing functions send every key to the same shard, for every shard count
   (hash_key delegates to hash_key_bytes since /repo 36d66e2). *)
Theorem routes_agree : forall k n, route_str k n = route_bytes k n.
Proof. exact routes_agree_lemma. Qed.
Print Assumptions routes_agree.

(* Before that commit hash_key fed str::hash's stream (bytes ++ [0xFF]) to the hasher:
   the two functions disagreed ("foo", 16 shards). *)
Theorem routes_agree_refuted_before_fix : exists k n, route_str_before_fix k n <> route_bytes k n.
Proof. exact routes_disagreed_before_fix. Qed.
Print Assumptions routes_agree_refuted_before_fix.

(* One request.  For every executor satisfying exec_ok, every shard count, every family of shards in
   which each key is stored in its home shard, and every request of any entry path outside the
   known-finding class: the N-shard server and the 1-shard server holding the union of the shards
   give equivalent replies (equal; KEYS up to order), the 1-shard server ends with the union of
   the N shards' new states, and every key is still stored in its home shard. *)
Theorem shards_refine_one : forall V P (X : executor V P), exec_ok X ->
  forall (sh : list (gmap (list N) V)) (rq : req P),
  Homed home_str sh -> (0 < List.length sh)%nat -> SingleHome X home_str (List.length sh) rq ->
  let rN := execN X home_str home_bytes sh rq in
  let r1 := execN X home_str home_bytes [abs sh] rq in
  reply_equiv rq rN.2 r1.2 /\ r1.1 = [abs rN.1] /\ Homed home_str rN.1 /\ List.length rN.1 = List.length sh.
Proof. exact (@shards_refine_one_lemma). Qed.
Print Assumptions shards_refine_one.

(* Arbitrary request sequences, by induction. *)
Theorem shards_refine_one_seq : forall V P (X : executor V P), exec_ok X ->
  forall (rqs : list (req P)) (sh : list (gmap (list N) V)),
  Homed home_str sh -> (0 < List.length sh)%nat -> Forall (SingleHome X home_str (List.length sh)) rqs ->
  let rN := runN X home_str home_bytes sh rqs in
  let r1 := runN X home_str home_bytes [abs sh] rqs in
  replies_equiv rqs rN.2 r1.2 /\ r1.1 = [abs rN.1] /\ Homed home_str rN.1 /\ List.length rN.1 = List.length sh.
Proof. exact (@shards_refine_one_seq_lemma). Qed.
Print Assumptions shards_refine_one_seq.

(* A server starts with N empty shards, which is a Homed family: the hypothesis of the two
   theorems above holds initially and is preserved, so it holds in every reachable state. *)
Theorem initial_state_homed : forall V n, Homed home_str (replicate n (∅ : gmap (list N) V)).
Proof. exact (@Homed_empty). Qed.
Print Assumptions initial_state_homed.

(* Every shard count refines the same one-store reference semantics [ref1] (what MGET, MSET, DEL,
   EXISTS, KEYS, DBSIZE, SCAN, FLUSH and the fast paths mean on a single keyspace). *)
Theorem shards_refine_reference : forall V P (X : executor V P), exec_ok X ->
  forall (sh : list (gmap (list N) V)) (rq : req P),
  Homed home_str sh -> (0 < List.length sh)%nat -> SingleHome X home_str (List.length sh) rq ->
  let rN := execN X home_str home_bytes sh rq in
  reply_equiv rq rN.2 (ref1 X (abs sh) rq).2 /\ abs rN.1 = (ref1 X (abs sh) rq).1 /\
  Homed home_str rN.1 /\ List.length rN.1 = List.length sh.
Proof. exact (@shards_refine_reference_lemma). Qed.
Print Assumptions shards_refine_reference.

(* The classification the theorems rely on is what the code's tables say (Gen/KeyTable.v is
   regenerated from command.rs and sharded_actor.rs on every run): every variant of enum Command
   has a row; a variant counts as single-home exactly when get_keys lists at most one key or the
   dispatcher has an arm for it; every variant without an arm is routed by the first key it lists
   (and lists none if it has no primary key); the dispatcher's arms and guard are the model's; and a
   well-formed command of a single-home variant never has keys on two shards. *)
Theorem key_table_sound :
  (forall t, In t kt_variants -> exists p spec, table_row t = Some (p, spec)) /\
  (forall t p spec, table_row t = Some (p, spec) ->
     tag_single_home t = at_most_one_key spec || in_tags t dispatch_arms) /\
  (forall t p spec, table_row t = Some (p, spec) -> in_tags t dispatch_arms = false ->
     head_consistent p spec = true /\ (p = PNone -> spec = [])) /\
  dispatch_arms = model_arms /\ dispatch_guards = [("Del", "keys.len() > 1")]%string /\
  (forall P (home : nat -> list N -> nat) n tag ks (p : P),
     tag_single_home tag = true -> WfCmd (COp tag ks p) -> ~ CrossShard home n (COp tag ks p)).
Proof. exact key_table_sound_lemma. Qed.
Print Assumptions key_table_sound.

(* Known finding C03-cross-shard-keys: the class excluded above is not empty.  On 2 shards, after
   one single-home request, RPOPLPUSH / LMOVE / RENAME / RENAMENX / MSETNX / SORT..STORE whose two
   keys live on different shards, followed by one single-home probe, are answered differently by
   2 shards and by 1 shard ... *)
Theorem two_key_refuted :
  refuted_by [Generic (COp "LPush" [d1] (ArgL [va]))] (COp "RPopLPush" [d1; d0] ArgNone) (Generic (COp "LLen" [d0] ArgNone)) /\
  refuted_by [Generic (COp "LPush" [d1] (ArgL [va]))] (COp "LMove" [d1; d0] (ArgDir false true)) (Generic (COp "LLen" [d0] ArgNone)) /\
  refuted_by [Generic (COp "Set" [k1] (ArgB va))] (COp "Rename" [k1; k0] ArgNone) (Generic (COp "Get" [k0] ArgNone)) /\
  refuted_by [Generic (COp "Set" [k1] (ArgB va))] (COp "RenameNx" [k1; k0] ArgNone) (Generic (COp "Get" [k0] ArgNone)) /\
  refuted_by [Generic (COp "Set" [k0] (ArgB va))] (COp "MSetNx" [k1; k0] (ArgL [va; vb])) (FastGet false k0) /\
  refuted_by [Generic (COp "RPush" [d1] (ArgL [vb; va]))] (COp "Sort" [d1; d0] ArgNone) (Generic (COp "LLen" [d0] ArgNone)).
Proof. exact two_key_witnesses. Qed.
Print Assumptions two_key_refuted.

(* ... and so is the keyless, state-dependent RANDOMKEY (asked of shard 0 only). *)
Theorem keyless_refuted :
  refuted_by [Generic (COp "Set" [k1] (ArgB va))] (COp "RandomKey" [] ArgNone) (Generic (CPing None)).
Proof. exact keyless_witness. Qed.
Print Assumptions keyless_refuted.

(* The class named in known_findings.jsonl is exactly what SingleHome excludes. *)
Theorem known_class_excluded : forall V P (X : executor V P) home n (rq : req P),
  KnownClass X home n rq -> ~ SingleHome X home n rq.
Proof. exact (@KnownClass_not_SingleHome). Qed.
Print Assumptions known_class_excluded.

(* The hypotheses are satisfiable: Model/MiniKV.v is an executor satisfying exec_ok, ... *)
Example C03_executor_exists : exec_ok mini.
Proof. exact mini_ok. Qed.
Print Assumptions C03_executor_exists.

(* ... and a concrete 3-shard run over all entry paths is inside SingleHome, touches two different
   shards and answers like one shard. *)
Example C03_nonvacuous :
  Forall (SingleHome mini home_str 3) ex_run /\
  home_str 3 d0 <> home_str 3 d1 /\
  (runN mini home_str home_bytes (replicate 3 ∅) ex_run).2 = (runN mini home_str home_bytes [∅] ex_run).2 /\
  (runN mini home_str home_bytes (replicate 3 ∅) ex_run).2 = ex_replies.
Proof. exact ex_run_ok. Qed.
Print Assumptions C03_nonvacuous.

(* C13 — compaction never changes what recovery returns.
   Statements only; model: Model/Persist.v (compact, recover), Model/CompactSpec.v;
   proofs: Proofs/MergeFoldProofs.v, Proofs/RecoveryProofs.v, Proofs/CompactionProofs.v.

   Reading guide.  [compact v c now sz w] is Compactor::compact on the world [w] (store image
   + outcome stream, Model/Store.v; [sz] = size in bytes of the segment it writes);
   [recover] is RecoveryManager::recover; [state_of rec] the node state after
   apply_recovered_state; [obs_kv] the observable projection of C07, [live_kv] drops the keys
   whose value is an LWW tombstone (they read as absent).  [compacted v cutoff A] is what a
   compaction writes for the concatenated contents [A] of its inputs, [dropped v cutoff A]
   the tombstones it leaves out.  [coherent] is C07's side condition per key, [ck_covers] the
   manifest's own invariant (see Props/C11.v).  The variant flags: [v_merge] = the repaired
   compaction (merge per key), [keep_latest] = the code as found. *)
From stdpp Require Import gmap.
From Coq Require Import NArith.
From RV Require Import Lib.Hex Model.Crdt Model.Store Model.Persist Model.CompactSpec.
From RV Require Import Proofs.MergeFoldProofs Proofs.PersistProofs Proofs.RecoveryProofs Proofs.CompactionProofs.
Local Open Scope N_scope.

(* Sequential compaction, every layout (sizes, selection outcome, overlapping stamp ranges,
   several replicas), every outcome stream - i.e. also at every crash instant and under
   every fault placement of the compaction's own store calls: recovery afterwards succeeds
   and yields the same node state.  Tombstone GC inactive (now <= ttl); with GC see
   C13_tombstone_gc_safe. *)
Theorem C13_compact_preserves : forall v (c : ccfg) now sz rid st (io : list outcome) w' r rec,
  v_strict_get v = true -> v_merge v = true -> now <= cc_ttl c ->
  store_ok st -> recover st rid = Some rec -> ck_covers (r_man rec) ->
  coherent (map_to_list (ck_state rec) ++ listed_updates st (r_man rec)) ->
  compact v c now sz (World st io [] false) = (w', r) ->
  exists rec', recover (w_store w') rid = Some rec' /\
               obs_kv (state_of rec') = obs_kv (state_of rec).
Proof.
  intros v c now sz rid st io w' r rec Hs Hm Hn Hok Hr Hc Hco Hcomp.
  apply (compact_preserves_lemma v Hs Hm c now rid (obs_kv (state_of rec)) Hn sz _ _ _ Hcomp).
  split; [exact Hok|]. exists rec. auto.
Qed.
Print Assumptions C13_compact_preserves.

(* The outcome streams of C13_compact_preserves include reads that arrive damaged (OErr
   EGarble: the get reports success, the bytes fail the segment's checks, the object at rest
   is intact).  Concretely: the damaged input is skipped and stays listed, the other two are
   compacted, recovery returns the same three deltas. *)
Example C13_garbled_read_keeps_input :
  let '(w, r) := compact repaired kl_cc 0 100 (World gb_store gb_io [] false) in
  r = COk [1; 2] (Some 3) /\
  map fst (rev (w_log w)) = [CGet NMan; CGet (NSeg 0); CGet (NSeg 1); CGet (NSeg 2); CPut (NSeg 3);
                             CPut NTmp; CRename NTmp NMan; CDelete (NSeg 1); CDelete (NSeg 2)] /\
  match recover gb_store 1 with
  | Some rec => map sig_of (r_deltas rec) = [(1, 5); (2, 6); (3, 7)] | None => False end /\
  match recover (w_store w) 1 with
  | Some rec => map sig_of (r_deltas rec) = [(1, 5); (2, 6); (3, 7)] | None => False end.
Proof. exact garbled_read_example. Qed.
Print Assumptions C13_garbled_read_keeps_input.

(* The algebraic core: replaying what the merging compaction wrote in place of what it read
   gives the same node state, wherever recovery places the new segment among the others
   ([us], [us'] = any orderings / multiplicities of old and new contents; [B] = the updates
   of the segments that were not compacted; [s] = the checkpoint state). *)
Theorem C13_compact_content_preserves : forall v (s : gmap (list N) rvalue) (A : list delta)
    (B us us' : list (list N * rvalue)),
  v_merge v = true ->
  (forall p, In p us <-> In p (map upd_of A ++ B)) ->
  (forall p, In p us' <-> In p (map upd_of (compacted v 0 A) ++ B)) ->
  coherent (map_to_list s ++ map upd_of A ++ B) ->
  obs_kv (replay us' s) = obs_kv (replay us s).
Proof. exact compact_content_preserves. Qed.
Print Assumptions C13_compact_content_preserves.

(* Dropping tombstones (any cutoff) is invisible to clients when no update of a dropped
   tombstone's key exists outside the compaction - neither in a segment that was not
   compacted nor in the checkpoint. *)
Theorem C13_tombstone_gc_safe : forall v (s : gmap (list N) rvalue) (A : list delta)
    (B : list (list N * rvalue)) cutoff (us us' : list (list N * rvalue)),
  v_merge v = true ->
  (forall p, In p us <-> In p (map upd_of A ++ B)) ->
  (forall p, In p us' <-> In p (map upd_of (compacted v cutoff A) ++ B)) ->
  coherent (map_to_list s ++ map upd_of A ++ B) ->
  (forall e, In e (dropped v cutoff A) -> s !! d_key e = None /\ forall p, In p B -> p.1 <> d_key e) ->
  obs_kv (live_kv (replay us' s)) = obs_kv (live_kv (replay us s)).
Proof. exact tombstone_gc_safe_lemma. Qed.
Print Assumptions C13_tombstone_gc_safe.

(* Regression (fixed: C13-keep-latest): the compaction as found keeps, per key, the delta with
   the greatest logical time instead of merging.  Two replicas' hash deltas for one key with
   disjoint fields (a coherent layout): two fields before, one after. *)
Theorem C13_keep_latest_refuted :
  coherent [([9], hashv 1 10 5 1); ([9], hashv 2 20 6 2)] /\
  let '(w, r) := compact keep_latest kl_cc 0 100 (World kl_store oks [] false) in
  r = COk [0; 1] (Some 2) /\
  nfields (state_at kl_store) [9] = 2%nat /\ nfields (state_at (w_store w)) [9] = 1%nat.
Proof. exact (conj kl_coherent keep_latest_witness). Qed.
Print Assumptions C13_keep_latest_refuted.

(* Known finding C13-tombstone-cutoff: the cutoff now_ms - ttl_ms is compared with logical
   Lamport time.  Production clock, TTL 24 h: a tombstone written 9 logical ticks ago is
   "older than TTL" and dropped; the older live value in a skipped (large) segment comes
   back: the deleted key reads 7 again.  (The safety hypothesis of C13_tombstone_gc_safe
   fails: the key has an update outside the compaction.) *)
Theorem C13_tombstone_cutoff_refuted :
  let '(w, r) := compact repaired tc_cc tc_now 100 (World tc_store oks [] false) in
  r = COk [1; 2] (Some 3) /\
  get_at (state_at tc_store) [1] = None /\ get_at (state_at (w_store w)) [1] = Some [7] /\
  map sig_of (dropped repaired (tc_now - cc_ttl tc_cc) [Delta [1] (tombv 9 1) 1; dlt 2 8 3 1]) = [(1, 9)].
Proof. exact tombstone_cutoff_witness. Qed.
Print Assumptions C13_tombstone_cutoff_refuted.

(* Known finding C13-manifest-swap-race: a flush that completes between the compaction's
   manifest load and its manifest save.  Both pick segment id 2; the compaction overwrites
   the flush's segment and writes a manifest from its snapshot: the flush returned Ok, its
   delta (key 3) is not recovered. *)
Theorem C13_interleaving_refuted :
  let '(s1, (w2, r)) := il_run in
  s_res s1 = [RFlush (FOk 1) 0; RPush true] /\ map sig_of (ps_conf (s_p s1)) = [(3, 7)] /\
  map fst (rev (w_log (s_w s1))) = [CGet NMan; CPut (NSeg 2); CPut NTmp; CRename NTmp NMan] /\
  r = COk [0; 1] (Some 2) /\
  map fst (rev (w_log w2)) = [CGet (NSeg 0); CGet (NSeg 1); CPut (NSeg 2); CPut NTmp;
                              CRename NTmp NMan; CDelete (NSeg 0); CDelete (NSeg 1)] /\
  match recover (w_store (s_w s1)) 1 with
  | Some rec => map sig_of (r_deltas rec) = [(1, 5); (2, 6); (3, 7)] | None => False end /\
  match recover (w_store w2) 1 with
  | Some rec => map sig_of (r_deltas rec) = [(1, 5); (2, 6)] | None => False end.
Proof. exact interleaving_witness. Qed.
Print Assumptions C13_interleaving_refuted.

(* The hypotheses of C13_compact_preserves hold for the two-replica hash layout, and the
   repaired compaction keeps both fields. *)
Example C13_nonvacuous :
  (exists T, Sem0 1 T kl_store /\ nfields T [9] = 2%nat) /\
  let '(w, r) := compact repaired kl_cc 0 100 (World kl_store oks [] false) in
  r = COk [0; 1] (Some 2) /\ nfields (state_at (w_store w)) [9] = 2%nat.
Proof. exact (conj kl_sem0 merge_example). Qed.
Print Assumptions C13_nonvacuous.

(* C08 — newest write wins: a node's stamps only grow, also across restart.
   Statements only; proofs are in Proofs/ShardStateProofs.v. *)
From stdpp Require Import gmap.
From RV Require Import Lib.Hex Model.Crdt Model.ShardState Proofs.ShardStateProofs.

(* The clock dominates every stamp stored, received, recovered or emitted. *)
Theorem C08_clock_dominates : forall rid causal evs s ds,
  run (shard_init rid causal) evs = (s, ds) ->
  Forall wf_event evs -> sh_ovf s = false ->
  (forall k v, sh_keys s !! k = Some v -> times_le v (sh_time s)) /\
  (forall x, In x (inputs evs ++ ds) -> times_le x (sh_time s)).
Proof.
  intros rid causal evs s ds Hrun Hwf Ho.
  exact (conj (proj1 (run_ok evs _ _ _ Hrun (Inv_init rid causal) Hwf Ho))
              (proj2 (proj2 (proj2 (proj2 (run_ok evs _ _ _ Hrun (Inv_init rid causal) Hwf Ho)))))).
Qed.
Print Assumptions C08_clock_dominates.

(* A locally issued stamp carries the node's id and is strictly above every stamp in every
   value the incarnation has received, recovered or issued before. *)
Theorem C08_issued_above_seen : forall rid causal pre e s ds s1 d,
  run (shard_init rid causal) pre = (s, ds) ->
  Forall wf_event pre ->
  step s e = (s1, Some d) -> is_write e = true -> sh_ovf s1 = false ->
  st_rid (rv_ts d) = rid /\
  forall x, In x (inputs pre ++ ds) -> exists b, times_le x b /\ (b < st_time (rv_ts d))%N.
Proof. exact issued_above_seen_lemma. Qed.
Print Assumptions C08_issued_above_seen.

(* The write supersedes every value built from stamps the node had seen, on any replica,
   whichever way round the merge is taken. *)
Theorem C08_write_supersedes : forall s k val exp s1 d x,
  step s (EWrite k val exp) = (s1, Some d) -> sh_ovf s1 = false ->
  times_le x (sh_time s) ->
  rv_get (rv_merge x d) = Some val /\ rv_get (rv_merge d x) = Some val /\
  rv_ts (rv_merge x d) = rv_ts d /\ rv_ts (rv_merge d x) = rv_ts d.
Proof. exact write_supersedes_lemma. Qed.
Print Assumptions C08_write_supersedes.

(* Across crash and recovery (checkpoint entries and deltas in any mix), provided what was
   issued before the crash was durable, no stamp repeats or decreases. *)
Theorem C08_no_repeat_across_restart : forall rid causal evs1 s1 ds1 rec evs2 e s2 ds2 s3 d,
  run (shard_init rid causal) evs1 = (s1, ds1) ->
  run (shard_init rid causal) (rec ++ evs2) = (s2, ds2) ->
  Forall wf_event (rec ++ evs2) ->
  (forall d1, In d1 ds1 -> exists r, In r (inputs rec) /\ (st_time (rv_ts d1) <= st_time (rv_ts r))%N) ->
  step s2 e = (s3, Some d) -> is_write e = true -> sh_ovf s3 = false ->
  forall d1, In d1 ds1 -> stamp_ltb (rv_ts d1) (rv_ts d) = true.
Proof. exact no_repeat_across_restart_lemma. Qed.
Print Assumptions C08_no_repeat_across_restart.

(* Closed system: a node fed well-formed values stores and emits only well-formed values,
   so the hypothesis [wf_event] is an invariant of a cluster of such nodes, not an assumption. *)
Theorem C08_emitted_well_formed : forall rid causal evs s ds,
  run (shard_init rid causal) evs = (s, ds) ->
  Forall wf_event evs -> sh_ovf s = false ->
  (forall k v, sh_keys s !! k = Some v -> wf_value v) /\ Forall wf_value ds.
Proof.
  intros rid causal evs s ds Hrun Hwf Ho.
  exact (run_wf evs _ _ _ Hrun (Inv_init rid causal) (WfInv_init rid causal) Hwf Ho).
Qed.
Print Assumptions C08_emitted_well_formed.

(* Known finding C08-clock-overflow: the guard [sh_ovf = false] is needed. *)
Theorem C08_clock_overflow_refuted :
  wf_event ovf_event /\
  let '(s, ds) := run (shard_init 1 false) [ovf_event; EWrite [107%N] [2%N] None] in
  sh_ovf s = true /\ exists d, ds = [d] /\ stamp_ltb (rv_ts d) (Stamp U64MAX 2) = true.
Proof. exact overflow_witness. Qed.
Print Assumptions C08_clock_overflow_refuted.

Example C08_nonvacuous :
  Forall wf_event ex_evs /\
  let '(s, _) := run (shard_init 1 false) ex_evs in
  exists s1 d, step s (EWrite [107%N] [3%N] None) = (s1, Some d) /\ sh_ovf s1 = false /\ rv_ts d = Stamp 13 1.
Proof. exact ex_run_ok. Qed.
Print Assumptions C08_nonvacuous.

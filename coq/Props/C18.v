(* C18 — anti-entropy digests (first stage: the code before the repair of the digest order). *)
From stdpp Require Import gmap.
From RV Require Import Lib.Hex Lib.SipHash Lib.SipHashFast Model.Crdt Model.Digest Proofs.DigestProofs.

(* The digest depends on the iteration order of the map: the same entries in two orders
   are reported divergent. *)
Theorem C18_digest_perm_refuted : exists l1 l2 : list (list N * rvalue),
  l1 ≡ₚ l2 /\ differs (from_state sip13f 0 l1) (from_state sip13f 0 l2) = true.
Proof. exact (ex_intro _ perm_wit_1 (ex_intro _ perm_wit_2 digest_perm_witness)). Qed.
Print Assumptions C18_digest_perm_refuted.

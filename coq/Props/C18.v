(* C18 — Anti-entropy: equal digests iff equal states; a sync leaves both sides merged.
   This file holds only the property statements; proofs live in Proofs/DigestProofs.v.
   Model: Model/Digest.v (anti_entropy.rs after the repair recorded as
   fixed:C18-digest-order, run_anti_entropy_sync of simulator/multi_node.rs).
   [h] is the hash function (the implementation: SipHash-1-3, Lib/SipHash.v); a replica
   state is the list of its entries in an arbitrary iteration order. *)
From stdpp Require Import gmap.
From Coq Require Import NArith.
From RV Require Import Lib.Hex Lib.SipHash Lib.SipHashFast Model.Crdt Model.Digest
  Proofs.CrdtProofs Proofs.DigestProofs.
Local Open Scope N_scope.

(* ---- never a perpetual false "divergent": the digest does not depend on the order in
   which keys were inserted or are iterated, for every hash function ---- *)
Theorem C18_digest_perm_invariant :
  forall (h : list N -> N) (depth : N) (l1 l2 : list (list N * rvalue)),
  l1 ≡ₚ l2 -> from_state h depth l1 = from_state h depth l2.
Proof. exact from_state_perm. Qed.
Print Assumptions C18_digest_perm_invariant.

Theorem C18_equal_state_equal_digest :
  forall (h : list N -> N) (depth : N) (m : gmap (list N) rvalue)
         (la lb : list (list N * rvalue)),
  la ≡ₚ map_to_list m -> lb ≡ₚ map_to_list m ->
  from_state h depth la = from_state h depth lb /\
  differs (from_state h depth la) (from_state h depth lb) = false.
Proof. exact from_state_same_map. Qed.
Print Assumptions C18_equal_state_equal_digest.

(* ---- never a false "in sync", for values the value hash covers and a hash without
   collisions (and without the value 0) on the finite set of inputs of the two digest
   computations ---- *)
Theorem C18_equal_digest_equal_state :
  forall (h : list N -> N) (depth : N) (l1 l2 : list (list N * rvalue)),
  HashOK h (hash_inputs h depth l1 ++ hash_inputs h depth l2) ->
  Forall (fun e => DigestVisible e.2) l1 -> Forall (fun e => DigestVisible e.2) l2 ->
  sd_root (from_state h depth l1) = sd_root (from_state h depth l2) ->
  l1 ≡ₚ l2.
Proof. exact equal_digest_equal_state_lemma. Qed.
Print Assumptions C18_equal_digest_equal_state.

Theorem C18_different_state_different_digest :
  forall (h : list N -> N) (depth : N) (l1 l2 : list (list N * rvalue)),
  HashOK h (hash_inputs h depth l1 ++ hash_inputs h depth l2) ->
  Forall (fun e => DigestVisible e.2) l1 -> Forall (fun e => DigestVisible e.2) l2 ->
  ~ l1 ≡ₚ l2 ->
  differs (from_state h depth l1) (from_state h depth l2) = true.
Proof. exact visible_states_differ. Qed.
Print Assumptions C18_different_state_different_digest.

(* Known finding C18-digest-blind: outside DigestVisible the statement is false for every
   hash function.  A = merge of two HSETs, B = the later HSET only. *)
Theorem C18_hash_fields_invisible_refuted : exists (la lb : list (list N * rvalue)) k a b,
  la = [(k, a)] /\ lb = [(k, b)] /\ obs a <> obs b /\ DigestBlind a /\ DigestBlind b /\
  forall (h : list N -> N) (depth : N),
    from_state h depth la = from_state h depth lb /\
    differs (from_state h depth la) (from_state h depth lb) = false.
Proof.
  exact (ex_intro _ blind_a (ex_intro _ blind_b (ex_intro _ [107] (ex_intro _ (rv_merge blind_x blind_y)
        (ex_intro _ blind_y (conj eq_refl (conj eq_refl blind_witness))))))).
Qed.
Print Assumptions C18_hash_fields_invisible_refuted.

(* ---- one digest-driven round (run_anti_entropy_sync) whose per-round limit covers the
   keys each side holds in the divergent buckets: both sides hold the merge of their prior
   values for every key of those buckets, other keys are untouched; if values under one
   key are Compatible (C07) the two sides then agree on those buckets and the next digest
   exchange, in whatever order the maps are then iterated, finds no divergence ---- *)
Theorem C18_sync_round_merges :
  forall (h : list N -> N) (depth : N) (limit : nat) (la lb : list (list N * rvalue)),
  NoDup (la.*1) -> NoDup (lb.*1) ->
  let A : gmap (list N) rvalue := list_to_map la in
  let B : gmap (list N) rvalue := list_to_map lb in
  let dv := divergent_buckets (from_state h depth la) (from_state h depth lb) in
  differs (from_state h depth la) (from_state h depth lb) = true ->
  (length (filter (in_buckets h depth dv) la) <= limit)%nat ->
  (length (filter (in_buckets h depth dv) lb) <= limit)%nat ->
  let A' := (sync_round h depth limit la lb).1 in
  let B' := (sync_round h depth limit la lb).2 in
  (forall k, key_bucket h depth k ∈ dv ->
     A' !! k = union_with (fun a b => Some (rv_merge a b)) (A !! k) (B !! k) /\
     B' !! k = union_with (fun a b => Some (rv_merge a b)) (B !! k) (A !! k)) /\
  (forall k, key_bucket h depth k ∉ dv -> A' !! k = A !! k /\ B' !! k = B !! k) /\
  ((forall k a b, A !! k = Some a -> B !! k = Some b -> Compatible a b) ->
   (forall k, key_bucket h depth k ∈ dv -> A' !! k = B' !! k) /\
   forall la' lb', la' ≡ₚ map_to_list A' -> lb' ≡ₚ map_to_list B' ->
     from_state h depth la' = from_state h depth lb' /\
     differs (from_state h depth la') (from_state h depth lb') = false /\
     divergent_buckets (from_state h depth la') (from_state h depth lb') = []).
Proof. exact sync_round_merges_lemma. Qed.
Print Assumptions C18_sync_round_merges.

(* Known finding C18-limit-starvation: with a limit that does not cover the divergent
   keys and an iteration order that is a function of the map, the same first `limit`
   keys are sent on every round; the other key never arrives, for any number of rounds. *)
Theorem C18_limit_starvation_refuted :
  exists (depth : N) (limit : nat) (A B : gmap (list N) rvalue) (k : list N) (v : rvalue),
  ShortLimit sip13f depth limit (map_to_list A) (map_to_list B) /\
  (forall a b, A !! a = Some b -> DigestVisible b) /\
  forall n, let s := sync_rounds map_to_list sip13f depth limit n (A, B) in
    differs (from_state sip13f depth (map_to_list s.1))
            (from_state sip13f depth (map_to_list s.2)) = true /\
    s.1 !! k = Some v /\ s.2 !! k = None.
Proof.
  exact (ex_intro _ 0 (ex_intro _ 1%nat (ex_intro _ starve_A (ex_intro _ starve_B
        (ex_intro _ [107;50] (ex_intro _ (lwwv [98] 2 1) starve_witness)))))).
Qed.
Print Assumptions C18_limit_starvation_refuted.

(* ---- the executable shortcuts of the model are the functions they stand for ---- *)
Theorem C18_model_shortcuts :
  (forall b, sip13f b = sip13 b) /\ (forall x, le64f x = le64 x) /\
  (forall depth x, low_bits depth x = x mod 2 ^ depth) /\
  (forall h depth k v, bucket_of depth (key_digest h k v) = key_bucket h depth k).
Proof. exact (conj sip13f_eq (conj le64f_eq (conj low_bits_mod key_bucket_digest))). Qed.
Print Assumptions C18_model_shortcuts.

(* ---- the hypotheses are satisfiable by concrete non-trivial instances ---- *)
Example C18_digest_nonvacuous : exists l1 l2 l3 : list (list N * rvalue),
  l1 <> l2 /\
  HashOK sip13f (hash_inputs sip13f 1 l1 ++ hash_inputs sip13f 1 l2) /\
  HashOK sip13f (hash_inputs sip13f 1 l1 ++ hash_inputs sip13f 1 l3) /\
  Forall (fun e => DigestVisible e.2) l1 /\ Forall (fun e => DigestVisible e.2) l2 /\
  Forall (fun e => DigestVisible e.2) l3 /\
  sd_root (from_state sip13f 1 l1) = sd_root (from_state sip13f 1 l2) /\
  differs (from_state sip13f 1 l1) (from_state sip13f 1 l3) = true.
Proof. exact (ex_intro _ ex_l1 (ex_intro _ ex_l2 (ex_intro _ ex_l3 ex_hash_ok))). Qed.
Print Assumptions C18_digest_nonvacuous.

Example C18_sync_nonvacuous : exists la lb : list (list N * rvalue),
  NoDup (la.*1) /\ NoDup (lb.*1) /\
  differs (from_state sip13f 1 la) (from_state sip13f 1 lb) = true /\
  Covering sip13f 1 2 la lb /\
  (forall k a b, (list_to_map la : gmap (list N) rvalue) !! k = Some a ->
                 (list_to_map lb : gmap (list N) rvalue) !! k = Some b -> Compatible a b) /\
  (sync_round sip13f 1 2 la lb).1 <> list_to_map la.
Proof. exact (ex_intro _ ex_sa (ex_intro _ ex_sb ex_sync_hyps)). Qed.
Print Assumptions C18_sync_nonvacuous.

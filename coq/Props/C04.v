(* C04 - Pipelining: exactly one reply per command, in order, however the bytes arrive.
   This file holds only the property statements; proofs live in Proofs/ConnProofs.v.

   Model/Conn.v is the production connection handler (read loop with the GET/SET batch collectors,
   the GET/SET fast path, the generic RespCodec path, the protocol-error path), generic in the
   backend.  [run g s reads] feeds the reads (the chunks successive `read` calls return, in order)
   to a fresh connection over backend state [s] under the batching configuration [g];
   [reference s stream] decodes the whole stream with the generic decoder only and hands every
   frame to the command layer, one after the other.  [reads_ok g reads]: no read is empty (an empty
   read is EOF), the stream fits max_buffer_size and is shorter than 2^62 bytes.
   [backend_ok] (Model/Conn.v) is the contract of the backend's fast entry points: they answer
   like state.execute on Get / Set.  [parse true] is RespCodec::parse (Model/Resp.v, property C15). *)
From Coq Require Import String NArith ZArith List.
From RV Require Import Lib.Hex Model.Resp Proofs.RespProofs Model.Conn Model.MiniExec Proofs.ConnProofs.
Import ListNotations.

Section Generic.
  Variable utf8_ok : list N -> bool.
  Variable St : Type.
  Variable cmd : Type.
  Variable decode_cmd : resp -> cmd + list N.
  Variable exec : St -> cmd -> St * resp.
  Variable fast_get : St -> list N -> St * resp.
  Variable fast_set : St -> list N -> list N -> St * resp.
  Variable batch_get : St -> list (list N) -> St * list resp.
  Variable batch_set : St -> list (list N * list N) -> St * list resp.
  Variable kind : cmd -> ckind.
  Variable cmd_get : list N -> cmd.
  Variable cmd_set : list N -> list N -> cmd.
  Variable stub_reply : cmd -> resp.
  Hypothesis BOK : backend_ok utf8_ok St cmd decode_cmd exec fast_get fast_set batch_get batch_set kind cmd_get cmd_set.

  Notation RUN := (run utf8_ok St cmd decode_cmd exec fast_get fast_set batch_get batch_set kind cmd_get stub_reply).
  Notation REFERENCE := (reference St cmd decode_cmd exec kind cmd_get stub_reply).
  Notation HF := (handle_frame St cmd decode_cmd exec kind cmd_get stub_reply).
  Notation REFREAD := (ref_read St cmd decode_cmd exec kind cmd_get stub_reply).

  (* For every stream of well-formed frames, EVERY way of cutting it into reads (also inside a frame
     header or payload), every pipeline depth and every (min_pipeline_buffer, batch_threshold): the
     replies written are those of decoding the stream frame by frame and executing one command after
     the other; the connection stays open and holds exactly the undecoded rest of the stream. *)
  Theorem C04_handler_eq_reference : forall (g : cfg) (reads : list (list N)) (s : St),
    reads_ok g reads -> wf_stream (concat reads) ->
    let k := RUN g s reads in
    output _ _ k = REFERENCE s (concat reads) /\
    cstat _ _ k = Open /\
    snd (decode_stream true (concat reads)) = TMore (cbuf _ _ k).
  Proof. exact (handler_eq_reference utf8_ok St cmd decode_cmd exec fast_get fast_set batch_get batch_set kind cmd_get cmd_set stub_reply BOK). Qed.

  (* Exactly one reply per command, in command order: as many replies as complete frames, and the
     first n replies are the replies of the first n commands executed alone after one another. *)
  Theorem C04_one_reply_per_command : forall (g : cfg) (reads : list (list N)) (s : St),
    reads_ok g reads -> wf_stream (concat reads) ->
    let k := RUN g s reads in
    let frames := fst (decode_stream true (concat reads)) in
    length (output _ _ k) = length frames /\
    forall n, firstn n (output _ _ k) = outp _ _ (fold_left HF (firstn n frames) (core_init _ _ s)).
  Proof. exact (one_reply_per_command utf8_ok St cmd decode_cmd exec fast_get fast_set batch_get batch_set kind cmd_get cmd_set stub_reply BOK). Qed.

  (* On ANY bytes (well formed or not): fast path and batching are unobservable - read by read the
     handler is the handler that only uses the generic decoder ... *)
  Theorem C04_handler_eq_generic_only : forall (g : cfg) (reads : list (list N)) (s : St),
    reads_ok g reads -> RUN g s reads = fold_left REFREAD reads (conn_init _ _ s).
  Proof. exact (handler_eq_generic_only utf8_ok St cmd decode_cmd exec fast_get fast_set batch_get batch_set kind cmd_get cmd_set stub_reply BOK). Qed.

  (* ... so the batching configuration cannot be observed either. *)
  Theorem C04_batching_config_irrelevant : forall (g1 g2 : cfg) (reads : list (list N)) (s : St),
    reads_ok g1 reads -> reads_ok g2 reads -> RUN g1 s reads = RUN g2 s reads.
  Proof. exact (batching_config_irrelevant utf8_ok St cmd decode_cmd exec fast_get fast_set batch_get batch_set kind cmd_get cmd_set stub_reply BOK). Qed.

  (* Whenever a recogniser accepts, RespCodec accepts the same bytes as the same frame with the same
     length and the command layer executes it identically; when a recogniser waits, RespCodec waits. *)
  Theorem C04_fast_path_eq_generic : forall (b : list N) (c : core St cmd),
    size_ok b -> in_tx _ (txs _ _ c) = false ->
    match try_fast_path utf8_ok b with
    | FGet key n => exists nm, is_get_name nm /\ parse true b = Done (RArr [RBulk nm; RBulk key]) n /\
                               HF c (RArr [RBulk nm; RBulk key]) = do_fast_get St cmd fast_get c key
    | FSet key val n => exists nm, is_set_name nm /\ parse true b = Done (RArr [RBulk nm; RBulk key; RBulk val]) n /\
                               HF c (RArr [RBulk nm; RBulk key; RBulk val]) = do_fast_set St cmd fast_set c key val
    | FNeed => parse true b = Incomplete
    | FNot => True
    end.
  Proof. exact (fast_path_eq_generic utf8_ok St cmd decode_cmd exec fast_get fast_set batch_get batch_set kind cmd_get cmd_set stub_reply BOK). Qed.

  (* A malformed frame (the decoder reports a protocol error somewhere in the stream): at the read
     that makes the error decidable the handler has answered every earlier command exactly as the
     reference does and then writes exactly one "-ERR protocol error"; it drops its buffer and stays
     open; before that read the task is alive and what it wrote is a prefix of those replies. *)
  Theorem C04_malformed_gets_error : forall (g : cfg) (reads : list (list N)) (s : St) (e : errkind),
    reads_ok g reads ->
    snd (decode_stream true (concat reads)) = TErr e ->
    let frames := fst (decode_stream true (concat reads)) in
    exists j, j <= length reads /\
      (let k := RUN g s (firstn j reads) in
       output _ _ k = outp _ _ (fold_left HF frames (core_init _ _ s)) ++ [R_PROTO] /\
       cbuf _ _ k = [] /\ cstat _ _ k = Open) /\
      forall i, i < j ->
        cstat _ _ (RUN g s (firstn i reads)) <> Dead /\
        exists m, output _ _ (RUN g s (firstn i reads)) = firstn m (outp _ _ (fold_left HF frames (core_init _ _ s))).
  Proof. exact (malformed_gets_error utf8_ok St cmd decode_cmd exec fast_get fast_set batch_get batch_set kind cmd_get cmd_set stub_reply BOK). Qed.

  (* On ANY bytes: no Rust panic site is reached, and the handler never sits on bytes the decoder can
     decide - what it keeps buffered is always an incomplete frame (C15_incomplete_not_stuck: some
     continuation decides it).  No silent stall, no crash. *)
  Theorem C04_no_silent_stall_no_crash : forall (g : cfg) (reads : list (list N)) (s : St),
    reads_ok g reads ->
    let k := RUN g s reads in
    cstat _ _ k <> Dead /\ parse true (cbuf _ _ k) = Incomplete.
  Proof. exact (never_dies_never_stalls utf8_ok St cmd decode_cmd exec fast_get fast_set batch_get batch_set kind cmd_get cmd_set stub_reply BOK). Qed.
End Generic.

(* On the wire: if the command layer only answers encodable values (status and error replies are
   single lines - the repairs ebb0c2b / 44a2094 / C04-error-line; nesting below 32), the bytes the
   reference writes decode back into exactly its replies: a client counts one reply per command. *)
Theorem C04_wire_one_reply_per_reply : forall (St cmd : Type) (decode_cmd : resp -> cmd + list N)
    (exec : St -> cmd -> St * resp) (kind : cmd -> ckind) (cmd_get : list N -> cmd) (stub_reply : cmd -> resp),
  (forall s cm, wf_resp 31 (snd (exec s cm)) = true) ->
  (forall cm, wf_resp 31 (stub_reply cm) = true) ->
  forall (s : St) (stream : list N),
    let rs := reference St cmd decode_cmd exec kind cmd_get stub_reply s stream in
    size_ok (wire rs) -> decode_stream true (wire rs) = (rs, TMore []).
Proof. exact reference_wire_decodes. Qed.

(* The hypotheses are satisfiable: the mini backend of the correspondence check is an instance. *)
Theorem C04_backend_ok_inhabited :
  backend_ok mutf8_ok mstate mcmd mdecode mexec mfast_get mfast_set mbatch_get mbatch_set
             mkind CGet CSet.
Proof. exact mini_backend_ok. Qed.

Print Assumptions C04_handler_eq_reference.
Print Assumptions C04_one_reply_per_command.
Print Assumptions C04_handler_eq_generic_only.
Print Assumptions C04_batching_config_irrelevant.
Print Assumptions C04_fast_path_eq_generic.
Print Assumptions C04_malformed_gets_error.
Print Assumptions C04_no_silent_stall_no_crash.
Print Assumptions C04_wire_one_reply_per_reply.
Print Assumptions C04_backend_ok_inhabited.

(* A concrete non-trivial instance: SET k v | GET k | PING | get k cut into three reads inside the
   SET payload and inside the second GET header, min_pipeline_buffer 1, batch_threshold 1 (the batch
   collectors engage), over the mini backend; and the same stream followed by a malformed frame. *)
Local Open Scope string_scope.
Example C04_nonvacuous :
  let stream := unhex "2a330d0a24330d0a5345540d0a24310d0a6b0d0a24310d0a760d0a2a320d0a24330d0a4745540d0a24310d0a6b0d0a2a310d0a24340d0a50494e470d0a2a320d0a24330d0a6765740d0a24310d0a6b0d0a" in
  let reads := [firstn 25 stream; firstn 40 (skipn 25 stream); skipn 65 stream] in
  let g := mk_cfg 1 1 1048576 in
  reads_ok g reads /\ concat reads = stream /\ wf_stream stream /\
  output _ _ (mrun g reads) = [RSimple (str "OK"); RBulk (str "v"); RSimple (str "PONG"); RBulk (str "v")] /\
  mreference stream = output _ _ (mrun g reads) /\
  (let bad := app stream (unhex "2a320d0a24330d0a4745540d0a2431783b0d0a") in
   exists e, snd (decode_stream true bad) = TErr e /\
             output _ _ (mrun g [firstn 30 bad; skipn 30 bad]) = app (mreference stream) [R_PROTO]).
Proof. exact nonvacuous_c04. Qed.
Print Assumptions C04_nonvacuous.

(* TEMPORARY stub *)
From Coq Require Import NArith List.
Theorem C04_stub : 1 + 1 = 2. Proof. reflexivity. Qed.
Print Assumptions C04_stub.

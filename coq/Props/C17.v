(* C17 - a command that fails changes nothing; a read-only command changes nothing.
   Statements only; proofs are in Proofs/RedisProofs.v.  Both hold for the reference semantics
   and for the implementation as built (every dialect), for every command of the model
   including the multi-key and two-key ones (MGET MSET MSETNX DEL EXISTS RENAME RENAMENX
   RPOPLPUSH LMOVE) and the commands the grammar rejects.  Equality of states implies equality
   of the visible keyspace and of every TTL at every instant. *)
From stdpp Require Import gmap.
From Coq Require Import ZArith NArith String.
From RV Require Import Lib.Hex Model.Redis Gen.ReadOnly Proofs.RedisProofs.
Local Open Scope Z_scope.

(* A command whose reply is an error leaves the state exactly as it was. *)
Theorem C17_error_no_effect : forall dl s now c,
  is_error (exec dl s now c).2 = true -> (exec dl s now c).1 = s.
Proof. exact error_no_effect_lemma. Qed.
Print Assumptions C17_error_no_effect.

(* A command that the implementation's own table Command::is_read_only (translated into
   Gen/ReadOnly.v on every run) classifies read-only leaves the state exactly as it was. *)
Theorem C17_read_only_no_effect : forall dl s now c,
  ro_impl (tag c) = true -> (exec dl s now c).1 = s.
Proof. exact read_only_no_effect_lemma. Qed.
Print Assumptions C17_read_only_no_effect.

(* The names used by [tag] are variants of the Rust enum Command as it is now. *)
Theorem C17_tags_are_command_variants : forall c,
  existsb (String.eqb (tag c)) command_variants = true.
Proof. exact tag_is_variant. Qed.
Print Assumptions C17_tags_are_command_variants.

(* Over whole runs: steps that are errors or read-only can be dropped without changing the
   state that is reached. *)
Theorem C17_skippable_steps : forall dl st c,
  (is_error (exec dl st.1 st.2 c).2 = true \/ ro_impl (tag c) = true) ->
  step dl st (OCmd c) = st.
Proof.
  intros dl [s now] c [H|H]; simpl in *; f_equal.
  - by apply error_no_effect_lemma.
  - by apply read_only_no_effect_lemma.
Qed.
Print Assumptions C17_skippable_steps.

(* The hypotheses are satisfiable: in the state after SET k 10 PX 100; INCR k; RPUSH l a b,
   INCRBY l, RPOPLPUSH l k, LSET l 7 x and INCRBY k i64::MAX are errors of four different kinds;
   LRANGE is classified read-only and LPOP is not. *)
Example C17_nonvacuous :
  let s := (run Redis (firstn 3 ex_ops)).1 in
  (exec Redis s 0 (IncrBy [108%N] 5)).2 = RErr EWrongType /\
  (exec Redis s 0 (RPopLPush [108%N] [107%N])).2 = RErr EWrongType /\
  (exec Redis s 0 (LSet [108%N] 7 [120%N])).2 = RErr EIndexOutOfRange /\
  (exec Redis s 0 (IncrBy [107%N] I64MAX)).2 = RErr EOverflow /\
  ro_impl (tag (LRange [108%N] 0 (-1))) = true /\ ro_impl (tag (LPop [108%N])) = false.
Proof. exact ex_error_lemma. Qed.
Print Assumptions C17_nonvacuous.

(* C11 — recovery returns exactly the merge of everything persisted, idempotently.
   Statements only; the model is Model/Persist.v (recover, recover_with_wal, recover_prod,
   apply_recovered), the proofs are in Proofs/MergeFoldProofs.v and Proofs/RecoveryProofs.v.

   Reading guide.  An update is a pair (key, value).  [replay us s] merges the updates [us]
   into the node state [s] in list order, exactly as apply_recovered_state does on the key's
   shard (insert if absent, ReplicatedValue::merge otherwise).  The ground truth of a store
   image is not a particular fold but ALL of them: the theorems say that the state built
   from what recovery returns equals, on the observable projection, [replay us ck] for EVERY
   list [us] that has the same elements as the persisted updates - any order, any
   multiplicity - i.e. the per-key join of everything persisted, started from the checkpoint
   state [ck].  [coherent] is C07's side condition, per key: the updates of one key (and the
   checkpoint entry of that key) are of one CRDT kind and pairwise Compatible (no stamp
   used for two different writes - an invariant of replicas whose clocks tick per write,
   C08).  [ck_covers] is the third clause of Manifest::verify_invariants (no listed segment
   at or below the checkpoint's last_segment_id). *)
From stdpp Require Import gmap.
From Coq Require Import NArith.
From RV Require Import Lib.Hex Model.Crdt Model.Store Model.Persist.
From RV Require Import Proofs.MergeFoldProofs Proofs.PersistProofs Proofs.RecoveryProofs.
Local Open Scope N_scope.

(* recover(): the node state after apply_recovered_state is the join of the checkpoint and
   of every update in every listed segment. *)
Theorem C11_recover_complete : forall st rid rec (us : list (list N * rvalue)),
  recover st rid = Some rec -> ck_covers (r_man rec) ->
  (forall p, In p us <-> In p (listed_updates st (r_man rec))) ->
  coherent (map_to_list (ck_state rec) ++ us) ->
  obs_kv (state_of rec) = obs_kv (replay us (ck_state rec)).
Proof. exact recover_complete_lemma. Qed.
Print Assumptions C11_recover_complete.

(* The state depends only on the SET of updates replayed: any order, any duplication. *)
Theorem C11_order_independent : forall (s : gmap (list N) rvalue) (us us' : list (list N * rvalue)),
  (forall p, In p us <-> In p us') -> coherent (map_to_list s ++ us) ->
  obs_kv (replay us s) = obs_kv (replay us' s).
Proof. exact replay_set_determined. Qed.
Print Assumptions C11_order_independent.

(* ... in particular any permutation and any duplication of the segment list. *)
Theorem C11_segment_order_independent : forall (st : gmap name (sobj obj)) segs segs' ds ds' s0,
  load_segs st segs = Some ds -> load_segs st segs' = Some ds' ->
  (forall s, In s segs <-> In s segs') ->
  coherent (map_to_list s0 ++ map upd_of ds) ->
  obs_kv (replay (map upd_of ds) s0) = obs_kv (replay (map upd_of ds') s0).
Proof. exact order_independent_lemma. Qed.
Print Assumptions C11_segment_order_independent.

(* Applying the recovered state a second time to the node changes nothing. *)
Theorem C11_repeat_idempotent : forall rec,
  coherent (map_to_list (ck_state rec) ++ map upd_of (r_deltas rec)) ->
  obs_kv (apply_recovered (r_ck rec) (r_deltas rec) (state_of rec)) = obs_kv (state_of rec).
Proof. exact repeat_idempotent_lemma. Qed.
Print Assumptions C11_repeat_idempotent.

(* The production start-up path (integration.recover, then replay of the whole WAL):
   the join of checkpoint, listed segments and every WAL entry, whatever the stamps. *)
Theorem C11_wal_nothing_dropped : forall st rid rec wl (us : list (list N * rvalue)),
  recover st rid = Some rec -> ck_covers (r_man rec) ->
  (forall p, In p us <-> In p (listed_updates st (r_man rec) ++ wal_updates wl)) ->
  coherent (map_to_list (ck_state rec) ++ us) ->
  exists s, recover_prod st rid wl = Some s /\ obs_kv s = obs_kv (replay us (ck_state rec)).
Proof. exact wal_complete_lemma. Qed.
Print Assumptions C11_wal_nothing_dropped.

(* The same for RecoveryManager::recover_with_wal once it replays the whole WAL. *)
Theorem C11_recover_with_wal_complete : forall v st rid rec wl (us : list (list N * rvalue)),
  v_wal_all v = true ->
  recover st rid = Some rec -> ck_covers (r_man rec) ->
  (forall p, In p us <-> In p (listed_updates st (r_man rec) ++ wal_updates wl)) ->
  coherent (map_to_list (ck_state rec) ++ us) ->
  exists rw, recover_with_wal v st rid wl = Some rw /\
             obs_kv (state_of rw) = obs_kv (replay us (ck_state rec)).
Proof. exact recover_with_wal_complete_lemma. Qed.
Print Assumptions C11_recover_with_wal_complete.

(* "No update is dropped", pointwise: the state absorbs every update that was replayed. *)
Theorem C11_every_update_absorbed : forall (s : gmap (list N) rvalue) (us : list (list N * rvalue)) p,
  coherent (map_to_list s ++ us) -> In p us ->
  exists x, replay us s !! p.1 = Some x /\ obs (rv_merge x p.2) = obs x.
Proof. exact nothing_dropped_lemma. Qed.
Print Assumptions C11_every_update_absorbed.

(* recover_with_wal as found (fixed: C11-wal-high-water): entries stamped below the segments'
   maximum are filtered out.  One segment written by a fast shard (stamp 10), one WAL entry
   of a slow shard (stamp 3) for another key: the key is absent from the recovered state,
   present with the whole-WAL replay and on the production path. *)
Theorem C11_high_water_refuted :
  match recover_with_wal as_found hw_store 1 hw_wal with
  | Some rw => map sig_of (r_deltas rw) = [(1, 10)] /\ state_of rw !! [2] = None
  | None => False
  end /\
  match recover_with_wal repaired hw_store 1 hw_wal with
  | Some rw => map sig_of (r_deltas rw) = [(1, 10); (2, 3)] /\ state_of rw !! [2] = Some (lwwv 8 3 1)
  | None => False
  end /\
  match recover_prod hw_store 1 hw_wal with
  | Some s => s !! [2] = Some (lwwv 8 3 1)
  | None => False
  end.
Proof. exact high_water_witness. Qed.
Print Assumptions C11_high_water_refuted.

(* The hypotheses are satisfiable by a non-trivial layout: a checkpoint, two segments with
   interleaved stamps listed out of stamp order (a far-ahead remote stamp 1000 in the first),
   a duplicated delta, a WAL with an entry below the segments' high-water mark; the list
   [ex_updates] is a shuffled version of the persisted updates with one more duplicate. *)
Example C11_nonvacuous :
  match recover ex_store 1 with
  | Some rec =>
      ck_covers (r_man rec) /\ ck_state rec = ex_ck /\
      map sig_of (r_deltas rec) = [(1, 7); (2, 20); (2, 9); (1, 1000); (2, 20)] /\
      (forall p, In p ex_updates <-> In p (listed_updates ex_store (r_man rec) ++ wal_updates ex_wal)) /\
      coherent (map_to_list (ck_state rec) ++ ex_updates)
  | None => False
  end.
Proof. exact example_recovery. Qed.
Print Assumptions C11_nonvacuous.

(* C06 — replicas converge: once updates are delivered, all replicas answer reads alike.
   Statements only; proofs are in Proofs/ClusterProofs.v (and Proofs/SemilatticeFold.v). *)
From stdpp Require Import gmap.
From RV Require Import Lib.Hex Model.Crdt Model.ShardState Model.Cluster Proofs.ShardStateProofs
  Proofs.SemilatticeFold Proofs.ClusterProofs Proofs.ServeProofs Proofs.UniqueStamps Proofs.ClosedSec
  Proofs.RestartProofs.

(* Strong eventual consistency, algebraic core: on a class closed under an associative,
   commutative, idempotent merge, folding two sequences with the same SET of elements (any
   order, any repetition) gives the same result. *)
Theorem C06_fold_depends_only_on_set :
  forall (A : Type) (f : A -> A -> A) (C : A -> Prop),
  (forall a b, C a -> C b -> C (f a b)) -> (forall a, C a -> f a a = a) ->
  (forall a b, C a -> C b -> f a b = f b a) ->
  (forall a b c, C a -> C b -> C c -> f a (f b c) = f (f a b) c) ->
  forall x xs y ys, Forall C (x :: xs) -> Forall C (y :: ys) ->
  (forall e, In e (x :: xs) <-> In e (y :: ys)) ->
  fold_left f xs x = fold_left f ys y.
Proof. intros A f C H1 H2 H3 H4. exact (fold_set_eq f C H1 H2 H3 H4). Qed.
Print Assumptions C06_fold_depends_only_on_set.

(* A local operation (SET/DEL/HSET/HDEL as recorded by the shard) leaves exactly the state
   that merging its own delta would leave: the writer is just one more replica of its update. *)
Theorem C06_local_is_merge : forall s e s1 d v,
  sh_causal s = false -> Inv s -> Inv2 s ->
  sh_keys s !! ev_key e = Some v -> plain v -> rv_merge v v = v ->
  is_local e = true ->
  step s e = (s1, Some d) -> sh_ovf s1 = false ->
  rv_merge v d = d /\ plain d.
Proof. exact local_is_merge. Qed.
Print Assumptions C06_local_is_merge.

(* Convergence of the cluster: for every run (client commands at any nodes, any deltas
   delivered to any nodes in any order, any number of times - i.e. every delay, reordering,
   duplication, loss-then-redelivery and partition-then-heal), if the deltas in play are
   "good" (per key one CRDT kind, string or hash; unique stamps; no expiry / vector clock;
   inner stamps <= outer stamp) and no clock overflowed, then two nodes that have incorporated
   the same SET of deltas for a key hold the same replicated value for it - in particular all
   nodes agree once every delta has reached every node, including the node that wrote it. *)
Theorem C06_sec : forall (U : stamp -> option lww) (K : list N -> N),
  (forall k, K k = 0%N \/ K k = 5%N) ->
  forall n evs c log i j ni nj k,
  crun (cluster_init n) [] evs = (c, log) -> final_ok U K c ->
  c !! i = Some ni -> c !! j = Some nj ->
  same_set (hist_of ni k) (hist_of nj k) ->
  sh_keys (n_sh ni) !! k = sh_keys (n_sh nj) !! k.
Proof. exact sec_lemma. Qed.
Print Assumptions C06_sec.

(* Every register stamp is used at most once in a cluster (the cluster-level form of C08): in
   every run whose deliveries are of previously emitted deltas and in which no clock
   overflowed, two registers occurring in emitted deltas with equal stamps are equal. *)
Theorem C06_unique_stamps : forall n evs,
  deliveries_from_log (cluster_init n) [] evs ->
  no_ovf (crun (cluster_init n) [] evs).1 ->
  forall r r', log_reg (crun (cluster_init n) [] evs).2 r -> log_reg (crun (cluster_init n) [] evs).2 r' ->
  lw_ts r = lw_ts r' -> r = r'.
Proof.
  intros n evs Hd Hno.
  exact (proj1 (crun_ginv evs _ _ (GInv_init n) Hd Hno)).
Qed.
Print Assumptions C06_unique_stamps.

(* Convergence, closed system: the hypotheses are about the client inputs only (each key is
   used with commands of one kind: strings SET [NX|XX] / APPEND / DEL, hashes HSET / HDEL),
   the network (it delivers only deltas that were emitted, any number of times, in any order,
   to anybody) and the absence of clock overflow.  Uniqueness of stamps, well-formedness,
   kind and plainness of the deltas are all derived. *)
Theorem C06_sec_closed : forall (K : list N -> N),
  (forall k, K k = 0%N \/ K k = 5%N) ->
  forall n evs i j ni nj k,
  valid_run K (cluster_init n) [] evs ->
  let c := (crun (cluster_init n) [] evs).1 in
  no_ovf c -> c !! i = Some ni -> c !! j = Some nj ->
  same_set (hist_of ni k) (hist_of nj k) ->
  sh_keys (n_sh ni) !! k = sh_keys (n_sh nj) !! k.
Proof. exact sec_closed_lemma. Qed.
Print Assumptions C06_sec_closed.

(* The agreed value of a string key is the register of the delta carrying the greatest
   (logical time, replica id) stamp among those incorporated. *)
Theorem C06_lww_winner : forall (U : stamp -> option lww) l v,
  Forall (in_class U 0) l -> fold_merge l = Some v ->
  exists r, reg_of v = Some r /\ (exists d, In d l /\ reg_of d = Some r) /\
       forall d r', In d l -> reg_of d = Some r' -> stamp_ltb (lw_ts r) (lw_ts r') = false.
Proof. exact lww_winner_lemma. Qed.
Print Assumptions C06_lww_winner.

(* What a replica serves to clients equals what its replication state says - closed system:
   along EVERY run of the cluster in which client commands keep each key to one kind (string
   keys: SET [NX|XX] / APPEND / DEL; hash keys: HSET / HDEL) and every delivered delta was
   emitted earlier by some node for that key, at every node and for every key the executor's
   answer is the materialisation of the replication state, and no remote hash is ever refused. *)
Theorem C06_serve_eq_state : forall (K : list N -> N) n evs,
  valid_run K (cluster_init n) [] evs ->
  let c := (crun (cluster_init n) [] evs).1 in
  forall i ni, c !! i = Some ni ->
    (forall k, serve ni k = state_says ni k) /\ n_glue_fail ni = false.
Proof. exact serve_eq_state_lemma. Qed.
Print Assumptions C06_serve_eq_state.

Example C06_serve_nonvacuous : valid_run ex_K (cluster_init 3) [] ex_serve_evs.
Proof. exact ex_serve_valid. Qed.
Print Assumptions C06_serve_nonvacuous.

(* ---------- crashes and restarts ---------- *)
(* [rrun] extends the runs with RRestart i: node i loses its executor, its replication state
   and its clock, and replays the deltas it emitted itself (WAL replay through
   apply_remote_deltas); what it had received comes back through ordinary deliveries.  A
   restart makes a node's clock go back, so "no overflow" is assumed of every step. *)

(* Convergence, closed system, with restarts: two nodes that have incorporated the same SET of
   deltas for a key hold the same replicated value for it, whatever crashed in between. *)
Theorem C06_sec_closed_restart : forall (K : list N -> N),
  (forall k, K k = 0%N \/ K k = 5%N) ->
  forall n evs i j ni nj k,
  valid_rrun K (cluster_init n) [] evs -> rrun_no_ovf (cluster_init n) [] evs ->
  let c := (rrun (cluster_init n) [] evs).1 in
  c !! i = Some ni -> c !! j = Some nj ->
  same_set (hist_of ni k) (hist_of nj k) ->
  sh_keys (n_sh ni) !! k = sh_keys (n_sh nj) !! k.
Proof. exact sec_closed_restart_lemma. Qed.
Print Assumptions C06_sec_closed_restart.

(* Stamps stay unique across crashes: no register stamp is ever issued twice in a cluster,
   also by a node that restarted with its clock at zero ... *)
Theorem C06_unique_stamps_restart : forall (K : list N -> N) n evs,
  valid_rrun K (cluster_init n) [] evs -> rrun_no_ovf (cluster_init n) [] evs ->
  let log := (rrun (cluster_init n) [] evs).2 in
  forall r r', log_reg log r -> log_reg log r' -> lw_ts r = lw_ts r' -> r = r'.
Proof. exact unique_stamps_restart_lemma. Qed.
Print Assumptions C06_unique_stamps_restart.

(* ... because the replay of its own deltas brings its clock past every stamp that carries its
   id, wherever in the cluster that stamp lives by now. *)
Theorem C06_restart_clock : forall (K : list N -> N) n evs i ni,
  valid_rrun K (cluster_init n) [] evs -> rrun_no_ovf (cluster_init n) [] evs ->
  (rrun (cluster_init n) [] evs).1 !! i = Some ni ->
  forall r, log_reg (rrun (cluster_init n) [] evs).2 r -> st_rid (lw_ts r) = N.of_nat (S i) ->
  (st_time (lw_ts r) <= sh_time (n_sh ni))%N.
Proof. exact restart_clock_lemma. Qed.
Print Assumptions C06_restart_clock.

(* What a node serves is what its replication state says, also after restarts. *)
Theorem C06_serve_eq_state_restart : forall (K : list N -> N) n evs,
  valid_rrun K (cluster_init n) [] evs -> rrun_no_ovf (cluster_init n) [] evs ->
  let c := (rrun (cluster_init n) [] evs).1 in
  forall i ni, c !! i = Some ni ->
    (forall k, serve ni k = state_says ni k) /\ n_glue_fail ni = false.
Proof. exact serve_eq_state_restart_lemma. Qed.
Print Assumptions C06_serve_eq_state_restart.

(* Non-vacuity: a run in which two nodes write, crash, restart and write again satisfies the
   hypotheses, and the stamps each node issues keep growing across its restart. *)
Example C06_restart_nonvacuous :
  (valid_rrun ex_K (cluster_init 3) [] ex_restart_evs /\ rrun_no_ovf (cluster_init 3) [] ex_restart_evs) /\
  map (fun x : nat * list N * rvalue => (x.1.1, st_time (rv_ts x.2))) (rrun (cluster_init 3) [] ex_restart_evs).2
  = [(0%nat, 1%N); (0%nat, 2%N); (1%nat, 2%N); (0%nat, 4%N); (1%nat, 4%N)].
Proof. exact (conj ex_restart_valid ex_restart_stamps). Qed.
Print Assumptions C06_restart_nonvacuous.

(* The runs of the four theorems above also contain the counter-like commands (RClient2: INCR /
   DECR / INCRBY / DECRBY, GETSET, HINCRBY): given the executor's state such a command is the SET
   (resp. one-field HSET) of its post-value that the glue records, or nothing when it is refused.
   Non-vacuity: INCRBY 5 and -7 on an absent key leave "-2", GETSET "10" then INCR leave "11",
   HINCRBY on a non-integer field and an overflowing one are refused. *)
Example C06_counter_nonvacuous :
  (valid_rrun ex_K (cluster_init 3) [] ex_counter_evs /\ rrun_no_ovf (cluster_init 3) [] ex_counter_evs) /\
  (map (fun x : nat * list N * rvalue => (x.1.1, x.1.2, st_time (rv_ts x.2))) (rrun (cluster_init 3) [] ex_counter_evs).2
   = [(0%nat, [115%N], 1%N); (0%nat, [115%N], 2%N); (1%nat, [104%N], 2%N); (0%nat, [115%N], 4%N); (1%nat, [104%N], 4%N);
      (0%nat, [99%N], 5%N); (0%nat, [99%N], 6%N); (0%nat, [115%N], 7%N); (0%nat, [115%N], 8%N); (1%nat, [104%N], 5%N)]
   /\ map (fun n => (n_x n !! [99%N], n_x n !! [115%N])) (rrun (cluster_init 3) [] ex_counter_evs).1
   = [(Some (XStr [45%N; 50%N]), Some (XStr [49%N; 49%N])); (None, None); (None, None)]).
Proof. exact (conj ex_counter_valid ex_counter_log). Qed.
Print Assumptions C06_counter_nonvacuous.

(* Known findings: outside the class the property fails on the faithful model. *)
Theorem C06_expiry_refuted :
  let '(s1, ds) := run (shard_init 1 false) [EWrite kS [97%N] (Some 5000%N); EWrite kS [98%N] None] in
  let '(s2, _) := run (shard_init 2 false) (map (ERemote kS) ds) in
  option_map rv_exp (sh_keys s1 !! kS) = Some None /\
  option_map rv_exp (sh_keys s2 !! kS) = Some (Some 5000%N).
Proof. exact expiry_witness. Qed.
Print Assumptions C06_expiry_refuted.

Theorem C06_del_nonstring_refuted :
  let '(c1, log1) := crun (cluster_init 2) [] del_evs in
  match log1 with
  | [(_, _, d)] =>
      let '(c2, log2) := crun c1 log1 [CDeliver 1 kH d; CClient 0 (CDel kH)] in
      match log2 with
      | [_; (_, _, d2)] =>
          let '(c3, _) := crun c2 log2 [CDeliver 1 kH d2] in
          map (fun n => showx (serve n kH)) c3 = [(0%N, []); (2%N, [([102%N], [118%N])])] /\
          map (fun n => showx (state_says n kH)) c3 = [(2%N, [([102%N], [118%N])]); (2%N, [([102%N], [118%N])])]
      | _ => False
      end
  | _ => False
  end.
Proof. exact del_nonstring_witness. Qed.
Print Assumptions C06_del_nonstring_refuted.

Theorem C06_type_change_refuted :
  let '(c1, log1) := crun (cluster_init 2) []
     [CClient 0 (CHSet kS [([102%N], [118%N])]); CClient 0 (CHSet kS [([103%N], [119%N])]); CClient 1 (CSet kS [97%N] false false)] in
  match log1 with
  | [_; (_, _, dh); _] =>
      let '(c2, _) := crun c1 log1 [CDeliver 1 kS dh] in
      map n_glue_fail c2 = [false; true] /\
      map (fun n => showx (serve n kS)) c2 = [(2%N, [([102%N], [118%N]); ([103%N], [119%N])]); (1%N, [([97%N], [97%N])])] /\
      map (fun n => showx (state_says n kS)) c2 = [(2%N, [([102%N], [118%N]); ([103%N], [119%N])]); (2%N, [([102%N], [118%N]); ([103%N], [119%N])])]
  | _ => False
  end.
Proof. exact type_change_witness. Qed.
Print Assumptions C06_type_change_refuted.

(* Non-vacuity: a concrete run - two concurrent writers of one string key, deltas delivered in
   different orders and one of them twice - whose deltas are good and whose nodes all agree. *)
Example C06_nonvacuous :
  (let '(c, log) := crun (cluster_init 3) [] (ex_evs6 ++ ex_deliveries) in
   log = [(0%nat, kS, ex_d0); (1%nat, kS, ex_d1)] /\
   map (fun n => hist_of n kS) c = [[ex_d0; ex_d1]; [ex_d1; ex_d0]; [ex_d1; ex_d0; ex_d1]] /\
   map (fun n => showx (serve n kS)) c = [(1%N, [([98%N],[98%N])]); (1%N, [([98%N],[98%N])]); (1%N, [([98%N],[98%N])])] /\
   map (fun n => bool_decide (sh_keys (n_sh n) !! kS = sh_keys (n_sh (default (node_init 0) (c !! 0%nat))) !! kS)) c = [true; true; true])
  /\ Forall (good ex_U (fun _ => 0%N) kS) [ex_d0; ex_d1].
Proof. exact (conj ex_run6 ex_good6). Qed.
Print Assumptions C06_nonvacuous.

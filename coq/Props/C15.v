(* C15 - RESP decoding is total, bounded, prefix-stable; replies re-decode to themselves.
   This file holds only the property statements; proofs live in Proofs/RespProofs.v.

   [parse codec b] is the model of RespCodec::parse (codec = true, the production decoder)
   and of RespParser::parse (codec = false, the simulation decoder) on the byte string b;
   [alloc_request codec b] is the largest single allocation request (bytes) made on the way;
   [encode v] is the model of RespCodec::encode / RespParser::encode.  See Model/Resp.v.
   The only side condition is the length bound 2^62 on inputs (a Rust slice is at most
   isize::MAX = 2^63 - 1 bytes long), needed to exclude usize overflow. *)
From Coq Require Import NArith ZArith List.
From RV Require Import Lib.Hex Model.Resp Proofs.RespProofs.
Import ListNotations.

(* Totality: every byte string gets exactly one of the three legitimate answers; the
   decoders never reach a Rust panic site (slice out of range, usize overflow, capacity
   overflow), and the loop fuel of the model never runs out. *)
Theorem C15_parse_total : forall (codec : bool) (b : list N),
  (Z.of_nat (length b) < 4611686018427387904)%Z ->
  (exists v n, parse codec b = Done v n) \/ parse codec b = Incomplete \/ (exists k, parse codec b = Err k).
Proof. exact parse_total. Qed.
Print Assumptions C15_parse_total.

Theorem C15_parse_no_panic : forall (codec : bool) (b : list N),
  (Z.of_nat (length b) < 4611686018427387904)%Z ->
  parse codec b <> Panic /\ parse codec b <> OutOfFuel.
Proof. intros codec b H. exact (conj (parse_no_panic codec b H) (parse_no_oof codec b)). Qed.
Print Assumptions C15_parse_no_panic.

(* A decoded frame occupies exactly the reported number of bytes: it never over-reads, and
   decoding just those bytes gives the same value. *)
Theorem C15_parse_consumed_exact : forall (codec : bool) (b : list N) (v : resp) (n : nat),
  parse codec b = Done v n ->
  1 <= n <= length b /\ parse codec (firstn n b) = Done v n.
Proof. exact parse_consumed_exact. Qed.
Print Assumptions C15_parse_consumed_exact.

(* Prefix stability: a decided answer does not change when more bytes arrive ... *)
Theorem C15_parse_extension : forall (codec : bool) (b x : list N) (v : resp) (n : nat),
  parse codec b = Done v n -> parse codec (b ++ x) = Done v n.
Proof. exact parse_extension. Qed.
Print Assumptions C15_parse_extension.

Theorem C15_parse_error_stable : forall (codec : bool) (b x : list N) (k : errkind),
  parse codec b = Err k -> parse codec (b ++ x) = Err k.
Proof. exact parse_error_stable. Qed.
Print Assumptions C15_parse_error_stable.

(* ... and every strict prefix of a frame is answered "need more bytes". *)
Theorem C15_parse_prefix_incomplete : forall (codec : bool) (b : list N) (v : resp) (n k : nat),
  (Z.of_nat (length b) < 4611686018427387904)%Z ->
  parse codec b = Done v n -> k < n -> parse codec (firstn k b) = Incomplete.
Proof. exact parse_prefix_incomplete. Qed.
Print Assumptions C15_parse_prefix_incomplete.

(* "Need more bytes" is never a dead end: some continuation takes the decoder out of it. *)
Theorem C15_incomplete_not_stuck : forall (codec : bool) (b : list N),
  parse codec b = Incomplete -> exists x, parse codec (b ++ x) <> Incomplete.
Proof. exact incomplete_not_stuck. Qed.
Print Assumptions C15_incomplete_not_stuck.

(* Feeding a stream in arbitrary fragments yields the same frames (and the same final
   state: bytes left in the buffer, or the protocol error) as feeding it whole. *)
Theorem C15_fragmentation_independent : forall (codec : bool) (frags : list (list N)),
  (Z.of_nat (length (concat frags)) < 4611686018427387904)%Z ->
  feed_all codec frags = decode_stream codec (concat frags).
Proof. exact fragmentation_independent. Qed.
Print Assumptions C15_fragmentation_independent.

(* No allocation is sized by an unvalidated length field: the largest single request is
   at most ELEM_SIZE = 40 bytes per input byte (one pre-allocated array slot per remaining
   input byte; payload copies are bounded by the bytes actually present). *)
Theorem C15_parse_alloc_bounded : forall (codec : bool) (b : list N),
  (alloc_request codec b <= ELEM_SIZE * N.of_nat (length b))%N.
Proof. exact parse_alloc_bounded. Qed.
Print Assumptions C15_parse_alloc_bounded.

(* Every well-formed value (no CR / LF inside simple strings and errors, integers in i64,
   at most MAX_DEPTH = 32 array levels) decodes back to itself, also when followed by
   further replies. *)
Theorem C15_encode_decode : forall (codec : bool) (v : resp) (x : list N),
  wf_resp MAX_DEPTH v = true ->
  (Z.of_nat (length (encode v ++ x)) < 4611686018427387904)%Z ->
  parse codec (encode v ++ x) = Done v (length (encode v)).
Proof. exact encode_decode_app. Qed.
Print Assumptions C15_encode_decode.

(* The production decoder and the simulation decoder decide every input identically. *)
Theorem C15_decoders_agree : forall b : list N, parse true b = parse false b.
Proof. exact decoders_agree. Qed.
Print Assumptions C15_decoders_agree.

(* Recursion is bounded: an array nested deeper than MAX_DEPTH is a protocol error whatever
   follows (the decoders recurse once per level; before the repair 5000 levels overflowed
   the stack). *)
Theorem C15_nesting_bounded : forall (codec : bool) (inner : list N),
  parse codec (Nat.iter (S MAX_DEPTH) (fun b => 42 :: 49 :: 13 :: 10 :: b)%N inner) = Err ETooDeep.
Proof. exact nesting_bounded. Qed.
Print Assumptions C15_nesting_bounded.

(* The hypotheses are satisfiable by non-trivial instances; the inputs that crashed or
   stalled the decoders before the repairs are now decided. *)
Example C15_nonvacuous :
  let get := [42; 50; 13; 10; 36; 51; 13; 10; 71; 69; 84; 13; 10; 36; 51; 13; 10; 102; 111; 111; 13; 10]%N in
  let v := RArr [RBulk [71; 69; 84]%N; RBulk [102; 111; 111]%N] in
  parse true get = Done v 22 /\ encode v = get /\ wf_resp MAX_DEPTH v = true /\
  parse true (firstn 21 get) = Incomplete /\
  wf_resp MAX_DEPTH (RArr [RInt (-9223372036854775808); RSimple [79; 75]%N; RNilArr; RArr []]) = true.
Proof. exact nonvacuous_example. Qed.
Print Assumptions C15_nonvacuous.

Example C15_repaired_inputs :
  parse true [36; 45; 50; 13; 10]%N = Err ENegLen /\            (* "$-2\r\n": was a panic *)
  parse false [36; 45; 50; 13; 10]%N = Err ENegLen /\
  parse true [42; 45; 50; 13; 10]%N = Err ENegLen /\            (* "*-2\r\n": was a panic *)
  alloc_request true [42; 49; 48; 48; 48; 48; 48; 48; 48; 48; 48; 13; 10]%N = 0%N /\
                                                                (* "*1000000000\r\n": asked for 40 GB *)
  parse true [43; 97; 13; 98; 13; 10]%N = Done (RSimple [97; 13; 98]%N) 6 /\
                                                                (* "+a\rb\r\n": was Incomplete forever *)
  parse true [36; 49; 13; 88; 13; 10]%N = Err EBadInt.          (* "$1\rX\r\n": was Incomplete forever *)
Proof. exact repaired_inputs_example. Qed.
Print Assumptions C15_repaired_inputs.

(* C05 - MULTI/EXEC is all-or-nothing and equals the sequential run; WATCH aborts on change.
   This file holds only the property statements; proofs live in Proofs/ConnProofs.v.

   Model/Conn.v: [dispatch c cm] is the `Ok(cmd)` arm of try_execute_command of the production
   connection handler (the connection-level transaction state machine: in_transaction, queue,
   transaction_errors, watched_keys), [handle_frame c v] adds Command::from_resp_zero_copy; a core
   [c] is (backend state, transaction state, replies written).  [run_queue s q] is EXEC's replay loop.
   [sys] / [step2] / [run2]: two connections A (true) and B (false) on one backend whose commands
   interleave at command boundaries in any order.  Everything is generic in the backend ([exec] is
   ShardedActorState::execute); the WATCH statements need [exec s (Get k)] to leave the state alone. *)
From Coq Require Import String NArith ZArith List.
From RV Require Import Lib.Hex Model.Resp Model.Conn Model.MiniExec Proofs.ConnProofs.
Import ListNotations.

Section Generic.
  Variable St : Type.
  Variable cmd : Type.
  Variable decode_cmd : resp -> cmd + list N.
  Variable exec : St -> cmd -> St * resp.
  Variable kind : cmd -> ckind.
  Variable cmd_get : list N -> cmd.
  Variable stub_reply : cmd -> resp.

  Notation HF := (handle_frame St cmd decode_cmd exec kind cmd_get stub_reply).
  Notation DISPATCH := (dispatch St cmd exec kind cmd_get stub_reply).
  Notation RQ := (run_queue St cmd exec).
  Notation GETR := (get_reply St cmd exec cmd_get).
  Notation STEP2 := (step2 St cmd decode_cmd exec kind cmd_get stub_reply).
  Notation RUN2 := (run2 St cmd decode_cmd exec kind cmd_get stub_reply).

  (* Commands sent between MULTI and EXEC have no effect: whatever frame other than EXEC arrives
     while the connection is in a transaction, the backend state is untouched ... *)
  Theorem C05_queued_no_effect : forall (c : core St cmd) (v : resp),
    in_tx _ (txs _ _ c) = true ->
    (forall cm, decode_cmd v = inl cm -> kind cm <> KExec) ->
    st _ _ (HF c v) = st _ _ c.
  Proof. exact (queued_no_effect St cmd decode_cmd exec kind cmd_get stub_reply). Qed.

  (* ... and no result: a queueable command is answered QUEUED and appended to the queue. *)
  Theorem C05_queued_reply : forall (c : core St cmd) (cm : cmd),
    in_tx _ (txs _ _ c) = true -> queueable (kind cm) ->
    DISPATCH c cm =
    mkCore _ _ (st _ _ c)
           (mkTx _ true (queue _ (txs _ _ c) ++ [cm]) (tx_err _ (txs _ _ c)) (watched _ (txs _ _ c)))
           (outp _ _ c ++ [R_QUEUED]).
  Proof. exact (queued_reply St cmd exec kind cmd_get stub_reply). Qed.

  (* EXEC with no queue-time error and unchanged watched keys: the backend ends in the state reached
     by executing the queue consecutively from the state at EXEC, and the reply is the array of
     exactly those results, one per queued command ... *)
  Theorem C05_exec_eq_sequential : forall (c : core St cmd) (cm : cmd) (s1 : St),
    in_tx _ (txs _ _ c) = true -> tx_err _ (txs _ _ c) = false -> kind cm = KExec ->
    watch_unchanged St cmd exec cmd_get (st _ _ c) (watched _ (txs _ _ c)) = (s1, true) ->
    let q := queue _ (txs _ _ c) in
    DISPATCH c cm = mkCore _ _ (fst (RQ s1 q)) (tx_idle cmd) (outp _ _ c ++ [RArr (snd (RQ s1 q))]) /\
    length (snd (RQ s1 q)) = length q.
  Proof.
    intros c cm s1 H1 H2 H3 H4. split.
    - exact (exec_applies St cmd exec kind cmd_get stub_reply c cm s1 H1 H2 H3 H4).
    - exact (run_queue_length St cmd exec _ s1).
  Qed.

  (* ... where "consecutively" means: each command runs in the state its predecessors left, whatever
     they answered (a run-time error stays in its place and does not stop the later commands) ... *)
  Theorem C05_run_queue_consecutive : forall (q : list cmd) (s : St) (c : cmd),
    RQ s (q ++ [c]) = (fst (exec (fst (RQ s q)) c), snd (RQ s q) ++ [snd (exec (fst (RQ s q)) c)]).
  Proof. exact (run_queue_snoc St cmd exec). Qed.

  (* ... and equals sending the same (ordinary) commands one after the other outside a transaction. *)
  Theorem C05_exec_eq_twin : forall (q : list cmd) (c : core St cmd),
    in_tx _ (txs _ _ c) = false -> Forall (fun x => kind x = KPlain) q ->
    fold_left DISPATCH q c =
    mkCore _ _ (fst (RQ (st _ _ c) q)) (txs _ _ c) (outp _ _ c ++ snd (RQ (st _ _ c) q)).
  Proof. exact (run_queue_eq_twin St cmd exec kind cmd_get stub_reply). Qed.

  (* All-or-nothing, the "nothing" half: DISCARD, EXEC after a queue-time error (EXECABORT), EXEC
     after a failed WATCH, nested MULTI and WATCH inside MULTI leave the backend untouched. *)
  Theorem C05_abort_no_effect : forall (c : core St cmd) (cm : cmd),
    in_tx _ (txs _ _ c) = true ->
    (kind cm = KDiscard -> DISPATCH c cm = mkCore _ _ (st _ _ c) (tx_idle cmd) (outp _ _ c ++ [R_OK])) /\
    (kind cm = KExec -> tx_err _ (txs _ _ c) = true ->
       DISPATCH c cm = mkCore _ _ (st _ _ c) (tx_idle cmd) (outp _ _ c ++ [R_EXECABORT])) /\
    (forall s1, kind cm = KExec -> tx_err _ (txs _ _ c) = false ->
       watch_unchanged St cmd exec cmd_get (st _ _ c) (watched _ (txs _ _ c)) = (s1, false) ->
       DISPATCH c cm = mkCore _ _ s1 (tx_idle cmd) (outp _ _ c ++ [RNilArr])) /\
    (kind cm = KMulti -> DISPATCH c cm = mkCore _ _ (st _ _ c) (txs _ _ c) (outp _ _ c ++ [R_NESTED])) /\
    (forall ks, kind cm = KWatch ks ->
       DISPATCH c cm = mkCore _ _ (st _ _ c) (txs _ _ c) (outp _ _ c ++ [R_WATCH_IN_MULTI])).
  Proof.
    intros c cm Ht. repeat split; intros.
    - now apply discard_resets.
    - now apply exec_aborts.
    - now apply exec_watch_failed.
    - now apply nested_multi_rejected.
    - now apply (watch_in_multi_rejected St cmd exec kind cmd_get stub_reply c cm ks).
  Qed.

  (* A queue-time error (a frame the command layer rejects, an unknown command, a channel stub)
     changes nothing but the abort mark; with C05_abort_no_effect: EXECABORT applies nothing. *)
  Theorem C05_queue_time_error_marks : forall (c : core St cmd) (v : resp),
    in_tx _ (txs _ _ c) = true ->
    ((exists e, decode_cmd v = inr e) \/
     (exists cm, decode_cmd v = inl cm /\ (kind cm = KStubChan \/ exists n, kind cm = KUnknown n))) ->
    marked St cmd c (HF c v).
  Proof.
    intros c v Ht [[e He]|(cm & Hc & Hk)].
    - exact (queue_time_parse_error St cmd decode_cmd exec kind cmd_get stub_reply c v e Ht He).
    - exact (queue_time_unknown St cmd decode_cmd exec kind cmd_get stub_reply c v cm Ht Hc Hk).
  Qed.

  Hypothesis get_read_only : forall s k, fst (exec s (cmd_get k)) = s.

  (* WATCH: EXEC answers nil and applies nothing if the GET reply of some watched key differs from
     the reply recorded at WATCH time, and applies everything otherwise. *)
  Theorem C05_watch_iff_get_reply_changed : forall (c : core St cmd) (cm : cmd),
    in_tx _ (txs _ _ c) = true -> tx_err _ (txs _ _ c) = false -> kind cm = KExec ->
    let c' := DISPATCH c cm in
    let s := st _ _ c in
    let q := queue _ (txs _ _ c) in
    ((exists k old, In (k, old) (watched _ (txs _ _ c)) /\ GETR s k <> old) ->
       c' = mkCore _ _ s (tx_idle cmd) (outp _ _ c ++ [RNilArr])) /\
    ((forall k old, In (k, old) (watched _ (txs _ _ c)) -> GETR s k = old) ->
       c' = mkCore _ _ (fst (RQ s q)) (tx_idle cmd) (outp _ _ c ++ [RArr (snd (RQ s q))])).
  Proof. exact (watch_iff_get_reply_changed St cmd exec kind cmd_get stub_reply get_read_only). Qed.

  (* Two clients.  A: WATCH ks; then B does anything; A: MULTI; then A queues commands while B does
     anything, in ANY interleaving; A: EXEC.  The EXEC is decided by comparing, for every watched key,
     the GET reply in the backend state at EXEC with the GET reply in the state at WATCH: some key
     differs - nil, nothing applied; none differs - the queue is applied consecutively from the
     state at EXEC and answered with one result per queued command.  A is idle afterwards. *)
  Theorem C05_watch_multi_exec_two_clients :
    forall (y : sys St cmd) (ks : list (list N)) (vw : resp) (cw : cmd) (vm : resp) (cmu : cmd)
           (ve : resp) (ce : cmd) (sched1 sched2 : list (bool * resp)),
    txa _ _ y = tx_idle cmd ->
    decode_cmd vw = inl cw -> kind cw = KWatch ks ->
    decode_cmd vm = inl cmu -> kind cmu = KMulti ->
    decode_cmd ve = inl ce -> kind ce = KExec ->
    Forall (fun p => fst p = false) sched1 ->
    Forall (fun p => fst p = true -> exists cm, decode_cmd (snd p) = inl cm /\ queueable (kind cm)) sched2 ->
    let y1 := STEP2 y true vw in
    let y2 := RUN2 y1 sched1 in
    let y3 := STEP2 y2 true vm in
    let y4 := RUN2 y3 sched2 in
    let y5 := STEP2 y4 true ve in
    let q := a_cmds cmd decode_cmd sched2 in
    txa _ _ y5 = tx_idle cmd /\
    ((exists k, In k ks /\ GETR (sst _ _ y4) k <> GETR (sst _ _ y) k) ->
       sst _ _ y5 = sst _ _ y4 /\ outa _ _ y5 = outa _ _ y4 ++ [RNilArr]) /\
    ((forall k, In k ks -> GETR (sst _ _ y4) k = GETR (sst _ _ y) k) ->
       sst _ _ y5 = fst (RQ (sst _ _ y4) q) /\ outa _ _ y5 = outa _ _ y4 ++ [RArr (snd (RQ (sst _ _ y4) q))] /\
       length (snd (RQ (sst _ _ y4) q)) = length q).
  Proof. exact (watch_multi_exec_two_clients St cmd decode_cmd exec kind cmd_get stub_reply get_read_only). Qed.

  (* Several WATCH commands.  A: any number of WATCH commands (overlapping key lists, a key named
     again or repeated inside one WATCH) with B doing anything between any two of them; A: MULTI; A
     queues while B does anything; A: EXEC.  [watch_snaps y sched0] lists, per WATCH command and per
     key named, the GET reply AT THAT WATCH; nothing recorded is ever replaced.  EVERY entry counts:
     EXEC is nil and applies nothing iff for some entry - in particular the one of the FIRST WATCH of a
     key - the key's GET reply at EXEC differs from the recorded one; otherwise everything is applied. *)
  Theorem C05_multi_watch_exec_two_clients :
    forall (y : sys St cmd) (vm : resp) (cmu : cmd) (ve : resp) (ce : cmd) (sched0 sched2 : list (bool * resp)),
    txa _ _ y = tx_idle cmd ->
    Forall (fun p => fst p = true -> exists cm ks, decode_cmd (snd p) = inl cm /\ kind cm = KWatch ks) sched0 ->
    decode_cmd vm = inl cmu -> kind cmu = KMulti ->
    decode_cmd ve = inl ce -> kind ce = KExec ->
    Forall (fun p => fst p = true -> exists cm, decode_cmd (snd p) = inl cm /\ queueable (kind cm)) sched2 ->
    let y2 := RUN2 y sched0 in
    let y3 := STEP2 y2 true vm in
    let y4 := RUN2 y3 sched2 in
    let y5 := STEP2 y4 true ve in
    let q := a_cmds cmd decode_cmd sched2 in
    let snaps := watch_snaps St cmd decode_cmd exec kind cmd_get stub_reply y sched0 in
    txa _ _ y5 = tx_idle cmd /\
    ((exists k old, In (k, old) snaps /\ GETR (sst _ _ y4) k <> old) ->
       sst _ _ y5 = sst _ _ y4 /\ outa _ _ y5 = outa _ _ y4 ++ [RNilArr]) /\
    ((forall k old, In (k, old) snaps -> GETR (sst _ _ y4) k = old) ->
       sst _ _ y5 = fst (RQ (sst _ _ y4) q) /\ outa _ _ y5 = outa _ _ y4 ++ [RArr (snd (RQ (sst _ _ y4) q))] /\
       length (snd (RQ (sst _ _ y4) q)) = length q).
  Proof. exact (multi_watch_exec_two_clients St cmd decode_cmd exec kind cmd_get stub_reply get_read_only). Qed.
End Generic.

(* ---- the EXECUTOR-level MULTI / EXEC / WATCH (CommandExecutor::execute with Command::Multi / Exec / ..;
   Model/Conn.v Section ExecutorTx; generic in the executor's ordinary commands [exec_plain], in what WATCH
   stores [read_key] and in the comparison [veqb]).  One client; while a transaction is open every command
   except EXEC / DISCARD / MULTI / WATCH is queued. *)
Section Executor.
  Variable St : Type.
  Variable cmd : Type.
  Variable V : Type.
  Variable exec_plain : St -> cmd -> St * resp.
  Variable kind : cmd -> ckind.
  Variable read_key : St -> list N -> V.
  Variable veqb : V -> V -> bool.
  Notation XSTEP := (x_step St cmd V exec_plain kind read_key veqb).
  Notation XRUN := (x_run St cmd exec_plain kind).

  (* no effect and no result until EXEC *)
  Theorem C05_x_queued_no_effect : forall (x : xstate St cmd V) (c : cmd),
    x_in _ _ _ x = true -> kind c <> KExec -> x_st _ _ _ (fst (XSTEP x c)) = x_st _ _ _ x.
  Proof. exact (x_queued_no_effect St cmd V exec_plain kind read_key veqb). Qed.

  Theorem C05_x_queued_reply : forall (x : xstate St cmd V) (c : cmd),
    x_in _ _ _ x = true ->
    kind c <> KExec -> kind c <> KDiscard -> kind c <> KMulti -> (forall ks, kind c <> KWatch ks) ->
    XSTEP x c = (mkX _ _ _ (x_st _ _ _ x) true (x_queue _ _ _ x ++ [c]) (x_watched _ _ _ x), RSimple (str "QUEUED")).
  Proof. exact (x_queued_reply St cmd V exec_plain kind read_key veqb). Qed.

  (* EXEC: if the value under some watched key differs from a recorded snapshot, nil and nothing applied;
     otherwise the queue is run consecutively from the present state, one result per queued command;
     either way the transaction state is reset.  DISCARD applies nothing. *)
  Theorem C05_x_exec_all_or_nothing : forall (x : xstate St cmd V) (c : cmd),
    x_in _ _ _ x = true -> kind c = KExec ->
    ((exists k old, In (k, old) (x_watched _ _ _ x) /\ veqb (read_key (x_st _ _ _ x) k) old = false) ->
       XSTEP x c = (mkX _ _ _ (x_st _ _ _ x) false [] [], RNilBulk)) /\
    ((forall k old, In (k, old) (x_watched _ _ _ x) -> veqb (read_key (x_st _ _ _ x) k) old = true) ->
       XSTEP x c = (mkX _ _ _ (fst (XRUN (x_st _ _ _ x) (x_queue _ _ _ x))) false [] [],
                    RArr (snd (XRUN (x_st _ _ _ x) (x_queue _ _ _ x)))) /\
       length (snd (XRUN (x_st _ _ _ x) (x_queue _ _ _ x))) = length (x_queue _ _ _ x)).
  Proof. exact (x_exec_nil_iff St cmd V exec_plain kind read_key veqb). Qed.

  Theorem C05_x_discard : forall (x : xstate St cmd V) (c : cmd),
    x_in _ _ _ x = true -> kind c = KDiscard ->
    XSTEP x c = (mkX _ _ _ (x_st _ _ _ x) false [] [], RSimple (str "OK")).
  Proof. exact (x_discard St cmd V exec_plain kind read_key veqb). Qed.

  Theorem C05_x_run_consecutive : forall (q : list cmd) (s : St) (c : cmd),
    XRUN s (q ++ [c]) =
    (fst (x_exec1 St cmd exec_plain kind (fst (XRUN s q)) c),
     snd (XRUN s q) ++ [snd (x_exec1 St cmd exec_plain kind (fst (XRUN s q)) c)]).
  Proof. exact (x_run_snoc St cmd exec_plain kind). Qed.

  (* EVERY WATCH instant counts: WATCH records each key it names with its present value, never replaces
     or drops an entry, and an entry survives every command except UNWATCH (outside a transaction) and
     EXEC / DISCARD (inside one) - later WATCHes of the same key included.  With
     C05_x_exec_all_or_nothing: EXEC is nil as soon as the value differs from what ANY WATCH of the key saw
     (a change between two WATCHes, and a change after the last WATCH that restores the first value). *)
  Theorem C05_x_every_watch_counts :
    (forall ks s w k, In k ks -> In (k, read_key s k) (x_watch St V read_key s w ks)) /\
    (forall ks s w k v, In (k, v) w -> In (k, v) (x_watch St V read_key s w ks)) /\
    (forall (x : xstate St cmd V) c k v,
       (x_in _ _ _ x = false -> kind c <> KUnwatch) ->
       (x_in _ _ _ x = true -> kind c <> KExec /\ kind c <> KDiscard) ->
       In (k, v) (x_watched _ _ _ x) -> In (k, v) (x_watched _ _ _ (fst (XSTEP x c)))).
  Proof.
    split; [|split].
    - exact (x_watch_fresh St V read_key).
    - exact (x_watch_keeps St V read_key).
    - exact (x_step_keeps_watch St cmd V exec_plain kind read_key veqb).
  Qed.
End Executor.

(* Over a backend with values (the mini backend of the correspondence check): "the GET reply differs"
   is "the value differs" unless the key holds a non-string value at both instants.  So, outside that
   class (which includes every string <-> other-type change): EXEC returns nil and applies nothing
   iff the value of some watched key at EXEC differs from its value at WATCH. *)
Theorem C05_watch_iff_changed_strings :
  forall (y : sys mstate mcmd) (ks : list (list N)) (vw vm ve : resp)
         (sched1 sched2 : list (bool * resp)),
  txa _ _ y = tx_idle mcmd ->
  mdecode vw = inl (CWatch ks) -> mdecode vm = inl CMulti -> mdecode ve = inl CExec ->
  Forall (fun p => fst p = false) sched1 ->
  Forall (fun p => fst p = true -> exists cm, mdecode (snd p) = inl cm /\ queueable (mkind cm)) sched2 ->
  let y4 := mrun2 (mstep2 (mrun2 (mstep2 y true vw) sched1) true vm) sched2 in
  let y5 := mstep2 y4 true ve in
  let q := a_cmds mcmd mdecode sched2 in
  (forall k, In k ks -> nonstring_at_both (sst _ _ y) (sst _ _ y4) k = false) ->
  ((exists k, In k ks /\ value_of (sst _ _ y4) k <> value_of (sst _ _ y) k) ->
     sst _ _ y5 = sst _ _ y4 /\ outa _ _ y5 = outa _ _ y4 ++ [RNilArr]) /\
  ((forall k, In k ks -> value_of (sst _ _ y4) k = value_of (sst _ _ y) k) ->
     sst _ _ y5 = fst (run_queue _ _ mexec (sst _ _ y4) q) /\
     outa _ _ y5 = outa _ _ y4 ++ [RArr (snd (run_queue _ _ mexec (sst _ _ y4) q))] /\
     length (snd (run_queue _ _ mexec (sst _ _ y4) q)) = length q).
Proof. exact mini_watch_iff_changed. Qed.

(* KNOWN FINDING C05-watch-nonstring: inside the class the property is false.  B creates a list k;
   A WATCHes k; B pushes to k; A: MULTI, SET j 1, EXEC.  The value of k differs between WATCH and
   EXEC (it holds a list at both instants), yet EXEC answers [OK] and j is set. *)
Theorem C05_watch_nonstring_refuted :
  let sW := sst _ _ (mrun2 (msys_init m0) (firstn 2 refute_sched)) in
  let sE := sst _ _ (mrun2 (msys_init m0) (firstn 5 refute_sched)) in
  let yF := mrun2 (msys_init m0) refute_sched in
  nonstring_at_both sW sE (b_ "k") = true /\
  value_of sE (b_ "k") <> value_of sW (b_ "k") /\
  last (outa _ _ yF) RNilArr = RArr [RSimple (str "OK")] /\
  value_of (sst _ _ yF) (b_ "j") = Some (VStr (b_ "1")).
Proof. exact watch_nonstring_refuted_witness. Qed.

(* the hypotheses are satisfiable: GET of the mini backend is read-only; a concrete transaction *)
Theorem C05_mini_get_read_only : forall (s : mstate) (k : list N), fst (mexec s (CGet k)) = s.
Proof. exact mexec_get_read_only. Qed.

Print Assumptions C05_queued_no_effect.
Print Assumptions C05_queued_reply.
Print Assumptions C05_exec_eq_sequential.
Print Assumptions C05_run_queue_consecutive.
Print Assumptions C05_exec_eq_twin.
Print Assumptions C05_abort_no_effect.
Print Assumptions C05_queue_time_error_marks.
Print Assumptions C05_watch_iff_get_reply_changed.
Print Assumptions C05_watch_multi_exec_two_clients.
Print Assumptions C05_multi_watch_exec_two_clients.
Print Assumptions C05_x_queued_no_effect.
Print Assumptions C05_x_queued_reply.
Print Assumptions C05_x_exec_all_or_nothing.
Print Assumptions C05_x_discard.
Print Assumptions C05_x_run_consecutive.
Print Assumptions C05_x_every_watch_counts.
Print Assumptions C05_watch_iff_changed_strings.
Print Assumptions C05_watch_nonstring_refuted.
Print Assumptions C05_mini_get_read_only.

Local Open Scope string_scope.
(* A: WATCH k | B: SET k x | A: MULTI, INCR n, LPUSH n a (run-time WRONGTYPE), SET j 1 | EXEC -> nil
   (k changed); then again without B's write -> [1; WRONGTYPE; OK]: the error stays in its place. *)
Example C05_nonvacuous :
  let A (l : list string) := (true, frame (map str l)) in
  let B (l : list string) := (false, frame (map str l)) in
  let body := [A ["MULTI"]; A ["INCR"; "n"]; A ["LPUSH"; "n"; "a"]; A ["SET"; "j"; "1"]; A ["EXEC"]] in
  let y1 := mrun2 (msys_init m0) (app [A ["WATCH"; "k"]; B ["SET"; "k"; "x"]] body) in
  let y2 := mrun2 (msys_init m0) (app [A ["WATCH"; "k"]; B ["GET"; "k"]] body) in
  last (outa _ _ y1) R_OK = RNilArr /\ value_of (sst _ _ y1) (str "j") = None /\
  last (outa _ _ y2) R_OK = RArr [RInt 1; WRONGTYPE; RSimple (str "OK")] /\
  value_of (sst _ _ y2) (str "j") = Some (VStr (str "1")).
Proof. exact nonvacuous_c05. Qed.
Print Assumptions C05_nonvacuous.

(* A key watched twice with a change by B BETWEEN the two WATCHes (none afterwards): the first snapshot
   decides - EXEC is nil, nothing is applied; the same with the key repeated in a multi-key WATCH. *)
Example C05_first_watch_decides :
  let A (l : list string) := (true, frame (map str l)) in
  let B (l : list string) := (false, frame (map str l)) in
  let tail := [A ["MULTI"]; A ["SET"; "j"; "1"]; A ["EXEC"]] in
  let y1 := mrun2 (msys_init m0) (app [B ["SET"; "k"; "a"]; A ["WATCH"; "k"]; B ["SET"; "k"; "b"]; A ["WATCH"; "k"]] tail) in
  let y2 := mrun2 (msys_init m0) (app [B ["SET"; "k"; "a"]; A ["WATCH"; "k"]; B ["SET"; "k"; "b"]; A ["WATCH"; "h"; "k"; "k"]] tail) in
  let y3 := mrun2 (msys_init m0) (app [B ["SET"; "k"; "a"]; A ["WATCH"; "k"]; A ["UNWATCH"]; B ["SET"; "k"; "b"]; A ["WATCH"; "k"]] tail) in
  last (outa _ _ y1) R_OK = RNilArr /\ value_of (sst _ _ y1) (str "j") = None /\
  last (outa _ _ y2) R_OK = RNilArr /\ value_of (sst _ _ y2) (str "j") = None /\
  last (outa _ _ y3) R_OK = RArr [RSimple (str "OK")] /\ value_of (sst _ _ y3) (str "j") = Some (VStr (str "1")).
Proof. exact first_watch_decides_c05. Qed.
Print Assumptions C05_first_watch_decides.

(* Executor level over the mini backend: WATCH k | LPUSH k b (a list modified in place) | MULTI SET j 1 EXEC
   -> nil (stored values of every type are compared); WATCH k | SET k b | WATCH k | MULTI SET j 1 EXEC ->
   nil (the first snapshot counts); back to the first value after a second WATCH -> nil (every WATCH instant
   counts); an empty transaction after a failed watch -> nil. *)
Example C05_x_nonvacuous :
  let run (l : list (list string)) :=
    fold_left (fun p c => let '(x, _) := p in
                          match mdecode (frame (map str c)) with
                          | inl cm => mx_step x cm
                          | inr _ => p
                          end) l (x_init _ _ _ m0, R_OK) in
  snd (run [["LPUSH"; "k"; "a"]; ["WATCH"; "k"]; ["LPUSH"; "k"; "b"]; ["MULTI"]; ["SET"; "j"; "1"]; ["EXEC"]]) = RNilBulk /\
  snd (run [["SET"; "k"; "a"]; ["WATCH"; "k"]; ["SET"; "k"; "b"]; ["WATCH"; "k"]; ["MULTI"]; ["SET"; "j"; "1"]; ["EXEC"]]) = RNilBulk /\
  snd (run [["SET"; "k"; "a"]; ["WATCH"; "k"]; ["SET"; "k"; "b"]; ["MULTI"]; ["EXEC"]]) = RNilBulk /\
  snd (run [["SET"; "k"; "a"]; ["WATCH"; "k"]; ["SET"; "k"; "b"]; ["WATCH"; "k"]; ["SET"; "k"; "a"]; ["MULTI"]; ["EXEC"]]) = RNilBulk /\
  snd (run [["SET"; "k"; "a"]; ["WATCH"; "k"]; ["GET"; "k"]; ["MULTI"]; ["INCR"; "k"]; ["SET"; "j"; "1"]; ["EXEC"]])
    = RArr [RError (str "ERR value is not an integer or out of range"); RSimple (str "OK")].
Proof. exact x_nonvacuous_c05. Qed.
Print Assumptions C05_x_nonvacuous.

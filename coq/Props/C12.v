(* C12 — streaming persistence is crash-consistent at every step and loses nothing confirmed.
   Statements only; the model is Model/Store.v + Model/Persist.v, the proofs are in
   Proofs/PersistProofs.v.

   Reading guide.  [run_persist c rid st0 ops io] runs the workload [ops] (push / flush /
   compact) of one process incarnation that starts on the store image [st0], against the
   outcome stream [io]: one outcome per object-store call, in program order (ok / error
   without effect / put error after a strict prefix was stored / put error after
   everything was stored).  When [io] is exhausted the process is dead: quantifying over
   all [io] quantifies over every crash instant (between any two calls, or inside a put)
   and every placement of faults.  [ps_conf] = the deltas of the flushes that returned Ok,
   [recover] = RecoveryManager::recover on the image left behind ([None] = it returns Err).
   [store_ok st] = the manifest of [st] (if any) parses and references only existing,
   complete objects - true of the empty store and, by the first theorem, of every image
   any incarnation leaves behind.  A store that acknowledges a truncated write is outside
   the fault model (Model/Store.v). *)
From stdpp Require Import gmap.
From Coq Require Import NArith.
From RV Require Import Lib.Hex Model.Crdt Model.Store Model.Persist Proofs.PersistProofs.
Local Open Scope N_scope.

(* In every reachable store state - all workloads, crash points and fault placements, tombstone
   GC on or off - the manifest references only existing, complete objects. *)
Theorem C12_manifest_refs_complete : forall (c : pcfg) rid st0 (ops : list wop) (io : list outcome),
  v_strict_get (pc_var c) = true -> store_ok st0 ->
  store_ok (w_store (s_w (run_persist c rid st0 ops io))).
Proof. exact refs_complete_lemma. Qed.
Print Assumptions C12_manifest_refs_complete.

(* Recovery at any crash point succeeds, and every delta of every flush that returned Ok is
   among the recovered deltas - verbatim, or merged (ReplicatedValue::merge, by a
   compaction) into a recovered delta of the same key.  Tombstone GC is C13's subject:
   compactions here run with now <= ttl. *)
Theorem C12_confirmed_recoverable : forall (c : pcfg) rid rid' st0 (ops : list wop) (io : list outcome),
  v_strict_get (pc_var c) = true -> v_merge (pc_var c) = true ->
  store_ok st0 -> gc_off (pc_cc c) ops ->
  let s := run_persist c rid st0 ops io in
  exists rec, recover (w_store (s_w s)) rid' = Some rec /\
    forall d, In d (ps_conf (s_p s)) -> exists d', In d' (r_deltas rec) /\ represents d' d.
Proof. exact confirmed_merge_lemma. Qed.
Print Assumptions C12_confirmed_recoverable.

(* Without compaction (any variant of the code, as found included) they are there verbatim. *)
Theorem C12_confirmed_recoverable_verbatim : forall (c : pcfg) rid rid' st0 (ops : list wop) (io : list outcome),
  store_ok st0 -> no_compaction ops ->
  let s := run_persist c rid st0 ops io in
  exists rec, recover (w_store (s_w s)) rid' = Some rec /\
    forall d, In d (ps_conf (s_p s)) -> In d (r_deltas rec).
Proof. exact confirmed_verbatim_lemma. Qed.
Print Assumptions C12_confirmed_recoverable_verbatim.

(* With the compaction that keeps the latest delta per key instead of merging (the code as
   found, see C13) only this weaker guarantee holds: a recovered delta of the same key
   carries an equal or later logical time. *)
Theorem C12_confirmed_superseded : forall (c : pcfg) rid rid' st0 (ops : list wop) (io : list outcome),
  v_strict_get (pc_var c) = true -> v_merge (pc_var c) = false ->
  store_ok st0 -> gc_off (pc_cc c) ops ->
  let s := run_persist c rid st0 ops io in
  exists rec, recover (w_store (s_w s)) rid' = Some rec /\
    forall d, In d (ps_conf (s_p s)) -> exists d', In d' (r_deltas rec) /\ supersedes d' d.
Proof. exact confirmed_select_lemma. Qed.
Print Assumptions C12_confirmed_superseded.

(* Any number of crash / restart cycles: what any incarnation confirmed is recovered after
   the crash of the last one. *)
Theorem C12_confirmed_recoverable_restarts : forall (c : pcfg) rid st0
    (hist : list (list wop * list outcome)) rid',
  v_strict_get (pc_var c) = true -> v_merge (pc_var c) = true ->
  store_ok st0 -> Forall (fun h => gc_off (pc_cc c) (fst h)) hist ->
  let '(st, conf) := run_incarnations c rid st0 hist in
  exists rec, recover st rid' = Some rec /\
    forall d, In d conf -> exists d', In d' (r_deltas rec) /\ represents d' d.
Proof. exact incarnations_lemma. Qed.
Print Assumptions C12_confirmed_recoverable_restarts.

(* A flush that returns Err leaves buffer, buffer size and everything else as they were. *)
Theorem C12_failed_flush_keeps_buffer : forall v p sz (w : world obj) p' w',
  v_restore v = true -> flush v p sz w = (p', w', FErr) -> p' = p.
Proof. exact failed_flush_lemma. Qed.
Print Assumptions C12_failed_flush_keeps_buffer.

(* Over whole workloads: as long as the process has not died (no call found the outcome
   stream exhausted, no panic), every delta push accepted is either confirmed by a flush that
   returned Ok or still in the buffer, in order - whatever failed in between. *)
Theorem C12_accepted_never_lost : forall (c : pcfg) rid st0 (ops : list wop) (io : list outcome),
  v_restore (pc_var c) = true ->
  let s := run_persist c rid st0 ops io in
  w_crashed (s_w s) = false -> ps_acc (s_p s) = ps_conf (s_p s) ++ ps_buf (s_p s).
Proof. exact accepted_lemma. Qed.
Print Assumptions C12_accepted_never_lost.

(* Regression (fixed: C12-failed-flush-drops-buffer): as found, a flush whose manifest read
   fails returns Err with an empty buffer; the accepted delta is neither pending nor
   confirmed although the process is alive. *)
Theorem C12_failed_flush_as_found_refuted :
  exists ops io d,
    let s := run_persist (ex_pcfg as_found) 1 ∅ ops io in
    w_crashed (s_w s) = false /\ In d (ps_acc (s_p s)) /\
    ~ In d (ps_conf (s_p s)) /\ ~ In d (ps_buf (s_p s)).
Proof.
  exists w1_ops, w1_io, (dlt 1 7 1 1).
  destruct as_found_flush_drops_buffer as (_ & H1 & H2 & H3 & H4).
  cbv zeta. rewrite H1, H2, H3, H4. repeat split; [by left|intros []|intros []].
Qed.
Print Assumptions C12_failed_flush_as_found_refuted.

(* Regression (fixed: C12-compaction-get-error): as found, a transient error of one get
   inside a compaction makes it drop the segment from the manifest and delete it: a delta
   confirmed earlier is not recovered (no recovered delta has its key). *)
Theorem C12_compaction_get_error_as_found_refuted :
  exists ops io d rec,
    let s := run_persist (ex_pcfg as_found) 1 ∅ ops io in
    w_crashed (s_w s) = false /\ In d (ps_conf (s_p s)) /\
    recover (w_store (s_w s)) 1 = Some rec /\
    forall d', In d' (r_deltas rec) -> d_key d' <> d_key d.
Proof. exact compaction_get_error_witness. Qed.
Print Assumptions C12_compaction_get_error_as_found_refuted.

(* The hypotheses are satisfiable by a non-trivial run: a torn segment put, a retried flush,
   a compaction, and a crash between the compaction's deletes; three deltas confirmed, all
   three recovered (two verbatim, one as the survivor of the compaction). *)
Example C12_nonvacuous :
  let s := run_persist (ex_pcfg repaired) 1 ∅ w3_ops w3_io in
  s_res s = [RCompact CCrash; RFlush (FOk 2) 0; RFlush FErr 2; RPush true; RPush true;
             RFlush (FOk 1) 0; RPush true] /\
  w_crashed (s_w s) = true /\
  map sig_of (ps_conf (s_p s)) = [(1, 1); (2, 2); (1, 3)] /\
  match recover (w_store (s_w s)) 1 with
  | Some rec => map sig_of (r_deltas rec) = [(2, 2); (1, 3)]
  | None => False
  end /\
  gc_off (pc_cc (ex_pcfg repaired)) w3_ops.
Proof. exact example_run. Qed.
Print Assumptions C12_nonvacuous.

(* C14 - stored updates round-trip through the WAL-entry, segment and checkpoint framing; damaged
   storage is detected, not decoded.  Only the property statements; proofs are in
   Proofs/WalProofs.v and Proofs/CodecProofs.v.

   Every theorem is stated for an ARBITRARY checksum function [crc] whose results fit in 32 bits
   (the type of crc32fast::hash) and an arbitrary payload-validity predicate [deser_ok]
   (bincode::deserialize succeeds); payloads are arbitrary byte strings.  Where detection of
   altered bytes needs two checksums to differ, that inequality is an explicit hypothesis.
   Truncation results assume nothing about crc.  Sizes and magics come from Gen/Consts.v,
   regenerated from segment.rs / checkpoint.rs / wal.rs on every run.
   (The gossip encoding is serde_json: exercised by the correspondence harness, not modelled.) *)
From Coq Require Import NArith List.
From RV Require Import Lib.Hex Lib.Bytes Lib.Crc32 Gen.Consts Model.Wal Model.Codec.
From RV Require Proofs.WalProofs.
From RV Require Import Proofs.CodecProofs.
Import ListNotations.
Local Open Scope N_scope.

(* ---------------- WAL entry ---------------- *)
Theorem C14_wal_entry_roundtrip : forall (crc : bytes -> N) e rest, WalProofs.wf_entry crc e ->
  decode_entry crc (encode_entry e ++ rest) = Ok (Some (e, 16 + lenN (e_data e))).
Proof. exact WalProofs.decode_encode. Qed.
Print Assumptions C14_wal_entry_roundtrip.

(* every strict prefix of an encoded entry is "None" (which ends WAL recovery) *)
Theorem C14_wal_entry_prefix_rejected : forall (crc : bytes -> N) e (k : nat),
  lenN (e_data e) < U32 -> (k < length (encode_entry e))%nat ->
  decode_entry crc (firstn k (encode_entry e)) = Ok None.
Proof. exact WalProofs.decode_truncated. Qed.
Print Assumptions C14_wal_entry_prefix_rejected.

(* payload or stored checksum altered: rejected when crc(data as stored) <> checksum as stored *)
Theorem C14_wal_entry_corruption_rejected : forall (crc : bytes -> N) len ts ck data rest,
  len = lenN data -> len < U32 -> ck < U32 -> crc data <> ck ->
  decode_entry crc (entry_header len ts ck ++ data ++ rest) = Ok None.
Proof. exact WalProofs.decode_bad_crc. Qed.
Print Assumptions C14_wal_entry_corruption_rejected.

(* KNOWN FINDING C14-wal-entry-header-unprotected (= C10-entry-header-unprotected): the stamp
   field is not covered; an entry whose stamp was replaced decodes, with the replaced stamp. *)
Theorem C14_wal_entry_stamp_unprotected : forall (crc : bytes -> N) e ts' rest,
  WalProofs.wf_entry crc e -> ts' < U64 ->
  decode_entry crc (entry_header (lenN (e_data e)) ts' (e_crc e) ++ e_data e ++ rest)
  = Ok (Some (Entry ts' (e_data e) (e_crc e), 16 + lenN (e_data e))).
Proof. exact WalProofs.decode_stamp_replaced. Qed.
Print Assumptions C14_wal_entry_stamp_unprotected.

(* KNOWN FINDING C14-wal-zero-header-is-an-entry: for every checksum function that maps the
   empty string to 0 (CRC-32 does), a header whose length and checksum fields are zero - in
   particular sixteen zero bytes - decodes as an (empty) entry: a zero-filled region at an
   entry boundary yields entries that were never appended. *)
Theorem C14_wal_zero_header_is_an_entry : forall (crc : bytes -> N), crc [] = 0 ->
  (forall ts rest, ts < U64 ->
     decode_entry crc (entry_header 0 ts 0 ++ rest) = Ok (Some (Entry ts [] 0, 16))) /\
  (forall rest, decode_entry crc (repeat 0 16 ++ rest) = Ok (Some (Entry 0 [] 0, 16))).
Proof.
  intros crc H0.
  exact (conj (fun ts rest Hts => WalProofs.decode_empty_header crc ts rest Hts H0)
              (fun rest => WalProofs.decode_zero_header crc rest H0)).
Qed.
Print Assumptions C14_wal_zero_header_is_an_entry.

Example C14_wal_zero_tail_read_as_entries :
  crc32 [] = 0 /\
  wal_read crc32 (file_image 1 [] ++ repeat 0 32) = Ok (1, [Entry 0 [] 0; Entry 0 [] 0]).
Proof. exact (conj crc32_empty WalProofs.zero_tail_witness). Qed.
Print Assumptions C14_wal_zero_tail_read_as_entries.

(* ---------------- segment ---------------- *)
(* all batches of >= 1 records, arbitrary binary payloads, all stamps *)
Theorem C14_segment_roundtrip : forall (crc : bytes -> N) (deser_ok : bytes -> bool),
  (forall d, crc d < U32) ->
  forall recs img,
  recs <> [] -> lenN recs < U32 -> Forall (rec_wf deser_ok) recs -> lenN (seg_records_bytes recs) < U64 ->
  seg_write crc recs = Ok img ->
  seg_read crc deser_ok img = Ok (seg_hdr_of crc recs, map snd recs).
Proof. exact segment_roundtrip. Qed.
Print Assumptions C14_segment_roundtrip.

(* EVERY strict prefix of a written segment is an error of open / validate / read_all - no
   assumption about crc: a payload may imitate a footer, including its checksum; the record
   count of the (intact) header closes that case (repo commit 929bfe5). *)
Theorem C14_segment_prefix_rejected : forall (crc : bytes -> N) (deser_ok : bytes -> bool),
  (forall d, crc d < U32) ->
  forall recs img (k : nat),
  recs <> [] -> lenN recs < U32 -> Forall (rec_wf deser_ok) recs ->
  seg_write crc recs = Ok img -> (k < length img)%nat ->
  exists e, seg_read crc deser_ok (firstn k img) = Err e.
Proof. exact segment_prefix_rejected. Qed.
Print Assumptions C14_segment_prefix_rejected.

(* damage confined to a checksum-covered region of a segment is an error, given that the
   checksums involved differ (named hypothesis per region); footer magic: outright *)
Theorem C14_segment_covered_corruption_rejected : forall (crc : bytes -> N) (deser_ok : bytes -> bool),
  (* record region replaced by any bytes rd', or stored data checksum replaced by fck *)
  (forall h pad rd' fck us cs,
     seg_hdr_wf h -> seg_hdr_valid crc h -> sh_flags h = 0 -> lenN pad = 10 ->
     fck < U32 -> us < U64 -> cs < U64 ->
     crc rd' <> fck ->
     seg_read crc deser_ok (seg_hdr_image h pad ++ rd' ++ seg_ftr_image fck us cs SEGMENT_FOOTER_MAGIC)
     = Err EChecksum) /\
  (* header fields or stored header checksum altered: the 40 bytes parse as h' *)
  (forall h' pad rd fb,
     seg_hdr_wf h' -> lenN pad = 10 -> lenN fb = 24 ->
     sh_ck h' <> crc (seg_fields_of h') ->
     exists e, seg_read crc deser_ok (seg_hdr_image h' pad ++ rd ++ fb) = Err e /\
               (e = EMagic \/ e = EVersion \/ e = EChecksum)) /\
  (* footer magic altered *)
  (forall h pad rd fck us cs m,
     seg_hdr_wf h -> seg_hdr_valid crc h -> lenN pad = 10 ->
     fck < U32 -> us < U64 -> cs < U64 -> lenN m = 4 -> m <> SEGMENT_FOOTER_MAGIC ->
     seg_read crc deser_ok (seg_hdr_image h pad ++ rd ++ seg_ftr_image fck us cs m) = Err EMagic).
Proof.
  intros crc deser_ok.
  exact (conj (seg_data_corruption_rejected crc deser_ok)
        (conj (seg_header_corruption_rejected crc deser_ok) (seg_footer_magic_rejected crc deser_ok))).
Qed.
Print Assumptions C14_segment_covered_corruption_rejected.

(* bytes no checksum covers - the 10 padding bytes of the header and the footer's two size
   fields - do not influence what is decoded *)
Theorem C14_segment_uncovered_bytes_harmless : forall (crc : bytes -> N) (deser_ok : bytes -> bool),
  (forall d, crc d < U32) ->
  forall h pad ps us cs,
  seg_hdr_wf h -> seg_hdr_valid crc h -> sh_flags h = 0 -> sh_count h = lenN ps ->
  lenN pad = 10 -> us < U64 -> cs < U64 ->
  Forall (fun p => payload_ok p /\ deser_ok p = true) ps ->
  seg_read crc deser_ok
    (seg_image h pad ps (crc (concat (map seg_record ps))) us cs SEGMENT_FOOTER_MAGIC) = Ok (h, ps).
Proof. exact seg_read_image. Qed.
Print Assumptions C14_segment_uncovered_bytes_harmless.

(* ---------------- checkpoint ---------------- *)
Theorem C14_checkpoint_roundtrip : forall (crc : bytes -> N) (deser_ok : bytes -> bool),
  (forall d, crc d < U32) ->
  forall keys ts last data,
  keys < U64 -> ts < U64 -> last < U64 -> lenN data < U32 -> deser_ok data = true ->
  chk_read crc deser_ok (chk_write crc keys ts last data) = Ok (chk_hdr_new crc keys ts last, data).
Proof. exact checkpoint_roundtrip. Qed.
Print Assumptions C14_checkpoint_roundtrip.

(* EVERY strict prefix of a written checkpoint is rejected (open / validate) - no assumption
   about crc *)
Theorem C14_checkpoint_prefix_rejected : forall (crc : bytes -> N) (deser_ok : bytes -> bool),
  (forall d, crc d < U32) ->
  forall keys ts last data (k : nat),
  keys < U64 -> ts < U64 -> last < U64 -> lenN data < U32 ->
  (k < length (chk_write crc keys ts last data))%nat ->
  chk_read crc deser_ok (firstn k (chk_write crc keys ts last data)) = Err ETooShort.
Proof. exact checkpoint_prefix_rejected. Qed.
Print Assumptions C14_checkpoint_prefix_rejected.

Theorem C14_checkpoint_covered_corruption_rejected : forall (crc : bytes -> N) (deser_ok : bytes -> bool),
  (forall d, crc d < U32) ->
  (* data section replaced by any bytes data' (length field consistent) *)
  (forall h pad rsv data' dck dsz trailing,
     chk_hdr_wf h -> chk_hdr_valid crc h -> N.odd (ch_flags h) = false ->
     lenN pad = 2 -> lenN rsv = 12 -> lenN data' < U32 -> dck < U32 -> dsz < U64 ->
     crc data' <> dck ->
     chk_read crc deser_ok (chk_image h pad rsv data' dck dsz (crc (le_enc 4 dck ++ le_enc 8 dsz)) trailing)
     = Err EChecksum) /\
  (* footer fields (data checksum, data size) or the footer checksum altered *)
  (forall h pad rsv data dck dsz fck trailing,
     chk_hdr_wf h -> chk_hdr_valid crc h -> lenN pad = 2 -> lenN rsv = 12 ->
     lenN data < U32 -> dck < U32 -> dsz < U64 -> fck < U32 ->
     fck <> crc (le_enc 4 dck ++ le_enc 8 dsz) ->
     chk_read crc deser_ok (chk_image h pad rsv data dck dsz fck trailing) = Err EChecksum) /\
  (* header fields or stored header checksum altered: the 48 bytes parse as h' *)
  (forall h' pad rsv rest,
     chk_hdr_wf h' -> lenN pad = 2 -> lenN rsv = 12 ->
     ch_ck h' <> crc (chk_fields_of h') ->
     exists e, chk_read crc deser_ok (chk_hdr_image h' pad rsv ++ rest) = Err e /\
               (e = EMagic \/ e = EVersion \/ e = EChecksum)).
Proof.
  intros crc deser_ok H.
  exact (conj (chk_data_corruption_rejected crc deser_ok H)
        (conj (chk_footer_corruption_rejected crc deser_ok) (chk_header_corruption_rejected crc deser_ok))).
Qed.
Print Assumptions C14_checkpoint_covered_corruption_rejected.

(* uncovered bytes of a checkpoint - 2 padding bytes, 12 reserved bytes, anything after the
   footer - do not influence what is decoded *)
Theorem C14_checkpoint_uncovered_bytes_harmless : forall (crc : bytes -> N) (deser_ok : bytes -> bool),
  (forall d, crc d < U32) ->
  forall h pad rsv data trailing,
  chk_hdr_wf h -> chk_hdr_valid crc h -> N.odd (ch_flags h) = false ->
  lenN pad = 2 -> lenN rsv = 12 -> lenN data < U32 -> deser_ok data = true ->
  chk_read crc deser_ok (chk_image h pad rsv data (crc data) (lenN data)
                          (crc (le_enc 4 (crc data) ++ le_enc 8 (lenN data))) trailing) = Ok (h, data).
Proof. exact chk_read_image. Qed.
Print Assumptions C14_checkpoint_uncovered_bytes_harmless.

(* ---------------- totality: arbitrary bytes never panic ---------------- *)
(* open + validate + read_all of a segment; open + validate + load of a checkpoint; and load
   WITHOUT validate (repo commit 54aabd4; before it that path panicked on short images) *)
Theorem C14_readers_never_panic : forall (crc : bytes -> N) (deser_ok : bytes -> bool) img,
  (seg_read crc deser_ok img <> Panic /\ seg_read crc deser_ok img <> Err EOutOfFuel) /\
  (chk_read crc deser_ok img <> Panic /\ chk_read_unchecked crc deser_ok img <> Panic).
Proof.
  intros crc deser_ok img.
  exact (conj (seg_read_total crc deser_ok img) (chk_read_total crc deser_ok img)).
Qed.
Print Assumptions C14_readers_never_panic.

(* ---------------- concrete instances (real CRC-32) ---------------- *)
(* the forged-footer image of the repaired defect: a valid 2-record segment whose 72-byte
   prefix passes open and validate, and is now rejected by read_all *)
Example C14_forged_footer_prefix_rejected :
  seg_write crc32 wit_recs = Ok wit_seg /\
  (exists h, seg_read crc32 (fun _ => true) wit_seg = Ok (h, [wit_p0; wit_p1])) /\
  (72 < length wit_seg)%nat /\
  (exists s, seg_open crc32 (firstn 72 wit_seg) = Ok s /\ seg_validate crc32 s = Ok tt) /\
  seg_read crc32 (fun _ => true) (firstn 72 wit_seg) = Err ETooShort.
Proof. exact forged_footer_witness. Qed.
Print Assumptions C14_forged_footer_prefix_rejected.

(* the hypotheses of the segment theorems are satisfiable *)
Example C14_nonvacuous :
  Forall (rec_wf (fun _ => true)) wit_recs /\ wit_recs <> [] /\ lenN wit_recs < U32.
Proof. exact rec_wf_example. Qed.
Print Assumptions C14_nonvacuous.

(* C14 (provisional file while the truncated-segment defect is being reported). *)
From Coq Require Import NArith List.
From RV Require Import Lib.Hex Lib.Bytes Lib.Crc32 Gen.Consts Model.Wal Model.Codec Proofs.WalProofs Proofs.CodecProofs.
Import ListNotations.
Local Open Scope N_scope.

Theorem C14_wal_entry_roundtrip : forall (crc : bytes -> N) e rest, wf_entry crc e ->
  decode_entry crc (encode_entry e ++ rest) = Ok (Some (e, 16 + lenN (e_data e))).
Proof. exact decode_encode. Qed.
Print Assumptions C14_wal_entry_roundtrip.

(* A strict prefix of a valid segment image that open + validate + read_all accept, yielding
   fewer records than were written. *)
Theorem C14_segment_prefix_refuted : exists img (k : nat) ps ps',
  (exists h, seg_read crc32 (fun _ => true) img = Ok (h, ps)) /\ (k < length img)%nat /\
  (exists h, seg_read crc32 (fun _ => true) (firstn k img) = Ok (h, ps')) /\ ps' <> ps.
Proof.
  exists wit_seg, 72%nat, [wit_p0; wit_p1], [wit_p0].
  destruct segment_prefix_witness as (A & B & C). repeat split; auto. discriminate.
Qed.
Print Assumptions C14_segment_prefix_refuted.

(* C07 — CRDT merge is commutative, associative and idempotent in all it exposes.
   This file holds only the property statements; proofs live in Proofs/CrdtProofs.v. *)
From stdpp Require Import gmap.
From RV Require Import Lib.Hex Model.Crdt Proofs.CrdtProofs.

Theorem C07_lamport_total_order : forall a b c : stamp,
  stamp_ltb a a = false /\
  (stamp_ltb a b = true -> stamp_ltb b c = true -> stamp_ltb a c = true) /\
  (stamp_ltb a b = true \/ a = b \/ stamp_ltb b a = true).
Proof. intros a b c. exact (conj (stamp_ltb_irrefl a) (conj (stamp_ltb_trans a b c) (stamp_trichotomy a b))). Qed.
Print Assumptions C07_lamport_total_order.

Theorem C07_merge_idem : forall a : rvalue, obs (rv_merge a a) = obs a.
Proof. exact rv_merge_idem. Qed.
Print Assumptions C07_merge_idem.

Theorem C07_merge_comm : forall a b : rvalue,
  Compatible a b -> obs (rv_merge a b) = obs (rv_merge b a).
Proof. intros a b H. exact (f_equal obs (rv_merge_comm a b H)). Qed.
Print Assumptions C07_merge_comm.

Theorem C07_merge_assoc : forall a b c : rvalue,
  ~ MixedKinds a b c ->
  obs (rv_merge a (rv_merge b c)) = obs (rv_merge (rv_merge a b) c).
Proof. intros a b c H. exact (f_equal obs (rv_merge_assoc a b c (rv_not_mixed a b c H))). Qed.
Print Assumptions C07_merge_assoc.

(* Known finding C07-mixed-assoc: with values of different kinds the fallback
   "later outer stamp wins" is not associative. *)
Theorem C07_merge_assoc_mixed_refuted : exists a b c : rvalue,
  MixedKinds a b c /\ Compatible a b /\ Compatible b c /\ Compatible a c /\
  obs (rv_merge a (rv_merge b c)) <> obs (rv_merge (rv_merge a b) c).
Proof. exact (ex_intro _ wit_a (ex_intro _ wit_b (ex_intro _ wit_c rv_merge_assoc_mixed_witness))). Qed.
Print Assumptions C07_merge_assoc_mixed_refuted.

(* The hypotheses are satisfiable by a non-trivial triple. *)
Example C07_nonvacuous : exists a b c : rvalue,
  ~ MixedKinds a b c /\ Compatible a b /\ rv_merge a b <> a.
Proof. exact (ex_intro _ ex_h1 (ex_intro _ ex_h2 (ex_intro _ ex_h1
  (conj (fun H => H (proj1 ex_hash_triple)) (proj2 ex_hash_triple))))). Qed.
Print Assumptions C07_nonvacuous.

(* C20 - simulation is reproducible: same seed, same trace, same verdict.  PARTIAL.

   A Gallina function is deterministic by construction, so "same seed => same run" is
   [eq_refl] for any model.  The statement only has content once a hidden input of the Rust
   harness - the per-process (per-map) hash keys that fix the iteration order of a
   HashMap - is an explicit argument, and the theorem says the run does not depend on it.
   That is done for ONE kernel: MultiNodeSimulation::gossip_round / send_deltas /
   deliver_messages (Model/SimKernel.v).  The seed is the draw stream [draw]; the
   iteration order of the k-th routing table is [o k].  For every other harness nothing is
   proved here; the evidence is the two-process differential run of harness/src/bin/c20.rs.

   Statements only; proofs are in Proofs/SimKernelProofs.v. *)
From Coq Require Import List NArith Permutation.
From RV Require Import Model.SimKernel Proofs.SimKernelProofs.
Import ListNotations.
Local Open Scope N_scope.

(* The repaired kernel: for every node semantics, every seed (draw stream), every loss
   predicate, every script of rounds / time advances / partitions / heals, any two iteration
   orders of the routing tables give the same run: same queue, same node states, same number
   of draws consumed, same panic flag.  [step_ok]: a table has one entry per target, which
   is what a HashMap is. *)
Theorem C20_kernel_oracle_independent :
  forall (D NS : Type) (apply_deltas : NS -> list D -> NS) (draw : nat -> N) (lost : N -> bool)
         (o1 o2 : nat -> list (N * list D) -> list (N * list D)) (steps : list (step D)) (s : sim D NS),
  perm_oracle D o1 -> perm_oracle D o2 -> Forall (step_ok D) steps ->
  run D NS apply_deltas draw lost true o1 s steps = run D NS apply_deltas draw lost true o2 s steps.
Proof. exact run_oracle_independent. Qed.
Print Assumptions C20_kernel_oracle_independent.

(* ... namely the run that walks every table in ascending target order. *)
Theorem C20_kernel_canonical :
  forall (D NS : Type) (apply_deltas : NS -> list D -> NS) (draw : nat -> N) (lost : N -> bool)
         (o : nat -> list (N * list D) -> list (N * list D)) (steps : list (step D)) (s : sim D NS),
  perm_oracle D o -> Forall (step_ok D) steps ->
  run D NS apply_deltas draw lost true o s steps =
  run D NS apply_deltas draw lost true (id_oracle D) s steps.
Proof. exact run_canonical. Qed.
Print Assumptions C20_kernel_canonical.

(* The loop before the repair ("for (target, deltas) in routing_table") is NOT independent of
   the iteration order: one sender, a table with two targets, first draw below the loss
   threshold - which target loses its message depends on which is visited first. *)
Theorem C20_kernel_prefix_refuted :
  exists o1 o2 : nat -> list (N * list N) -> list (N * list N),
    perm_oracle N o1 /\ perm_oracle N o2 /\ Forall (step_ok N) w_steps /\
    run N (list N) w_apply w_draw w_lost false o1 w_init w_steps <>
    run N (list N) w_apply w_draw w_lost false o2 w_init w_steps.
Proof. exact prefix_oracle_dependent. Qed.
Print Assumptions C20_kernel_prefix_refuted.

(* Broadcast mode never iterates a table: independent of the oracle before and after. *)
Theorem C20_kernel_broadcast_independent :
  forall (D NS : Type) (apply_deltas : NS -> list D -> NS) (draw : nat -> N) (lost : N -> bool)
         (fixed : bool) (o1 o2 : nat -> list (N * list D) -> list (N * list D))
         (steps : list (step D)) (s : sim D NS),
  Forall (broadcast_only D) steps ->
  run D NS apply_deltas draw lost fixed o1 s steps = run D NS apply_deltas draw lost fixed o2 s steps.
Proof. exact run_broadcast_indep. Qed.
Print Assumptions C20_kernel_broadcast_independent.

(* The general facts the argument rests on. *)
Theorem C20_sort_of_permutation :
  forall (D : Type) (l1 l2 : list (N * list D)),
  NoDup (map fst l2) -> Permutation l1 l2 -> sort_by_target D l1 = sort_by_target D l2.
Proof. exact sort_perm_eq. Qed.
Print Assumptions C20_sort_of_permutation.

Theorem C20_fold_commuting_step_perm :
  forall (A B : Type) (f : A -> B -> A),
  (forall a x y, f (f a x) y = f (f a y) x) ->
  forall l1 l2, Permutation l1 l2 -> forall a, fold_left f l1 a = fold_left f l2 a.
Proof. exact fold_left_perm_comm. Qed.
Print Assumptions C20_fold_commuting_step_perm.

(* The hypotheses are satisfiable by a non-trivial instance: reversal is an admissible
   iteration order, the witness script is well formed, and through the repaired loop the
   witness scenario of the refutation has one outcome under both orders. *)
Example C20_nonvacuous :
  perm_oracle N w_rev /\ Forall (step_ok N) w_steps /\
  s_nodes (run N (list N) w_apply w_draw w_lost true (id_oracle N) w_init w_steps) = [[]; []; [8]] /\
  s_nodes (run N (list N) w_apply w_draw w_lost true w_rev w_init w_steps) = [[]; []; [8]].
Proof. exact (conj w_rev_perm (conj w_steps_ok fixed_witness_same)). Qed.
Print Assumptions C20_nonvacuous.

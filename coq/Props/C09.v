(* C09 — always-fsync WAL: a write reported durable survives a crash at any instant.
   This file holds only the property statements; the model is Model/WalActor.v, the proofs
   are in Proofs/WalActorProofs.v.

   Reading guide.  [run cfg sched io] is the state of the WAL actor (FsyncPolicy::Always)
   and of its store after it has processed the schedule [sched] (Write messages in the
   order it dequeued them, flush_group_commit points = batch boundaries) against the
   outcome stream [io] (one outcome per I/O call, in program order: ok, or an error that
   left nothing / a torn prefix / everything in the file; a create or fsync that fails).
   When [io] runs out the process is dead: a crash instant is a prefix of [io] (between any
   two I/O calls) and of [sched].  [crash] cuts every file to what a successful fsync of
   that file covered; [recover_all] is WalRotator::recover_all_entries. *)
From Coq Require Import NArith List.
From RV Require Import Model.WalActor Proofs.WalActorProofs.
Import ListNotations.
Local Open Scope N_scope.

(* For every rotation threshold, every group-commit bound, every schedule (batching of
   concurrent writers, Shutdown and TruncateUpTo messages anywhere), every outcome stream
   (fault placement: failed / partial / lying append, disk full, failed fsync, failed
   create, failed delete, in any number and position) and every crash instant (prefix
   lengths n, m): every write acked Ok whose stamp is above every watermark the actor was
   asked to truncate to is returned by recovery.  (A write is named w = stamp * 1024 + serial,
   [stamp w] = w / 1024 is the timestamp of its entry: stamps may repeat; entries
   stamped <= a watermark have been streamed to the object store and may be deleted.) *)
Theorem C09_acked_survive :
  forall (max_file_size max_entries : N) (sched : list sched_item) (io : list outcome) (n m : nat),
  let a := run (Config Repaired max_file_size max_entries) (firstn n sched) (firstn m io) in
  forall w, In w (acked_ok a) ->
  (forall t, In (STruncate t) (firstn n sched) -> t < stamp w) ->
  In w (recover_all (crash (s_store a))).
Proof. intros mf me sched io n m. exact (acked_survive_prefix (Config Repaired mf me) sched io n m eq_refl). Qed.
Print Assumptions C09_acked_survive.

(* The special case without truncation: the statement of the property as it stands. *)
Theorem C09_acked_survive_no_truncation :
  forall (max_file_size max_entries : N) (sched : list sched_item) (io : list outcome),
  (forall t, ~ In (STruncate t) sched) ->
  let a := run (Config Repaired max_file_size max_entries) sched io in
  forall w, In w (acked_ok a) -> In w (recover_all (crash (s_store a))).
Proof. intros mf me sched io NT. exact (acked_survive_no_truncation (Config Repaired mf me) sched io eq_refl NT). Qed.
Print Assumptions C09_acked_survive_no_truncation.

(* The sharp form: [s_released] collects exactly the readable entries of the files that
   truncate_before deleted.  An acked write that is not among them is recovered; and only
   entries stamped at or below an applied watermark are ever among them - whatever the
   order of stamps inside a file (a file holding 5, 1, 3 is not deleted by watermark 3). *)
Theorem C09_acked_survive_unless_truncated :
  forall (max_file_size max_entries : N) (sched : list sched_item) (io : list outcome),
  let a := run (Config Repaired max_file_size max_entries) sched io in
  forall w, In w (acked_ok a) -> ~ In w (s_released a) -> In w (recover_all (crash (s_store a))).
Proof. intros mf me sched io. exact (acked_survive_unless_released (Config Repaired mf me) sched io eq_refl). Qed.
Print Assumptions C09_acked_survive_unless_truncated.

Theorem C09_truncation_releases_only_below_watermark :
  forall (cfg : config) (sched : list sched_item) (io : list outcome) (w : N),
  In w (s_released (run cfg sched io)) -> exists t, In (STruncate t) sched /\ stamp w <= t.
Proof. exact released_below_watermark. Qed.
Print Assumptions C09_truncation_releases_only_below_watermark.

(* A crash that spares more than it must: file s keeps its first max(synced, keep s) items
   (any part of the unsynced tails may survive) - acked writes are recovered all the same. *)
Theorem C09_acked_survive_any_spared_tail :
  forall (max_file_size max_entries : N) (sched : list sched_item) (io : list outcome) (keep : N -> nat),
  let a := run (Config Repaired max_file_size max_entries) sched io in
  forall w, In w (acked_ok a) -> ~ In w (s_released a) ->
  In w (recover_all (crash_keep keep (s_store a))).
Proof. intros mf me sched io keep. exact (acked_survive_keep (Config Repaired mf me) sched io keep eq_refl). Qed.
Print Assumptions C09_acked_survive_any_spared_tail.

(* Any number of crash / restart cycles (each incarnation: what its preceding crash spared,
   its schedule, its outcome stream; a new actor starts on what survived, numbering its
   files after the largest existing sequence number as WalRotator::new does): a write acked
   Ok by any incarnation, stamped above every watermark of every incarnation, is recovered
   after the crash of the last one. *)
Theorem C09_acked_survive_restarts :
  forall (max_file_size max_entries : N)
         (hist : list ((N -> nat) * list sched_item * list outcome)) (keep : N -> nat),
  let a := run_incarnations (Config Repaired max_file_size max_entries) hist in
  forall w, In w (acked_ok a) ->
    (forall k sched io t, In (k, sched, io) hist -> In (STruncate t) sched -> t < stamp w) ->
    In w (recover_all (crash (s_store a))) /\ In w (recover_all (crash_keep keep (s_store a))).
Proof. intros mf me hist keep. exact (acked_survive_restarts_watermark (Config Repaired mf me) hist keep eq_refl). Qed.
Print Assumptions C09_acked_survive_restarts.

(* Sequence numbers of existing files never exceed current_sequence, and rotate() creates
   current_sequence + 1: create never replaces (truncates) an existing WAL file. *)
Theorem C09_create_never_replaces :
  forall (max_file_size max_entries : N) (sched : list sched_item) (io : list outcome) p,
  let a := run (Config Repaired max_file_size max_entries) sched io in
  In p (s_store a) -> fst p <= s_seq a.
Proof. intros mf me sched io p. exact (seq_bound_run (Config Repaired mf me) sched io p eq_refl). Qed.
Print Assumptions C09_create_never_replaces.

(* Rust panics are explicit in the model ([s_panic]): the expect("current_writer must exist
   after rotate") in WalRotator::append never fires, and the actor's debug invariant
   (verify_invariants: pending_acks.len() <= entries_since_sync; fire-and-forget writes
   count as entries without a pending ack) holds in every reachable state - for both variants of the
   rotator, every history, every fault placement. *)
Theorem C09_actor_never_panics :
  forall (cfg : config) (hist : list ((N -> nat) * list sched_item * list outcome)),
  let a := run_incarnations cfg hist in
  s_panic a = false /\ N.of_nat (length (s_pending a)) <= s_since a.
Proof. exact never_panics. Qed.
Print Assumptions C09_actor_never_panics.

(* Regression: the rotator as it was before the repair (rotate() and the append-error path
   drop the writer without fsync) loses acked writes.  No fault is needed for the first. *)
Theorem C09_legacy_rotation_in_batch_refuted :
  exists cfg sched io w,
    c_variant cfg = Legacy /\ Forall (fun o => o = OOk) io /\ valid_schedule cfg sched io = true /\
    In w (acked_ok (run cfg sched io)) /\ ~ In w (recover_all (crash (s_store (run cfg sched io)))).
Proof. exact legacy_rotation_in_batch_refuted. Qed.
Print Assumptions C09_legacy_rotation_in_batch_refuted.

Theorem C09_legacy_append_error_in_batch_refuted :
  exists cfg sched io w,
    c_variant cfg = Legacy /\ valid_schedule cfg sched io = true /\ s_halt (run cfg sched io) = false /\
    In w (acked_ok (run cfg sched io)) /\ ~ In w (recover_all (crash (s_store (run cfg sched io)))).
Proof. exact legacy_append_error_in_batch_refuted. Qed.
Print Assumptions C09_legacy_append_error_in_batch_refuted.

(* The statement is not vacuous: a valid schedule with a rotation inside a batch, a torn
   append, an append that reports an error after writing everything and a failed fsync;
   four writes are acked Ok, three are reported failed (two of those survive anyway); at
   the crash instant after 9 I/O calls nothing is acked yet and entries 1-3 are durable. *)
Example C09_nonvacuous :
  valid_schedule repaired_cfg ex_sched ex_io = true /\
  s_halt (run repaired_cfg ex_sched ex_io) = false /\
  acked_ok (run repaired_cfg ex_sched ex_io) = [7; 3; 2; 1] /\
  s_err (run repaired_cfg ex_sched ex_io) = [5; 6; 4] /\
  recover_all (crash (s_store (run repaired_cfg ex_sched ex_io))) = [1; 2; 3; 5; 6; 7] /\
  recover_all (crash (s_store (run repaired_cfg ex_sched (firstn 9 ex_io)))) = [1; 2; 3] /\
  acked_ok (run repaired_cfg ex_sched (firstn 9 ex_io)) = [].
Proof. exact example_run. Qed.
Print Assumptions C09_nonvacuous.

(* ... and so is the statement about restarts (see the comment at ex_hist2 in the proofs). *)
Example C09_nonvacuous_restarts :
  acked_ok (run_incarnations repaired_cfg ex_hist2) = [6; 5; 4; 3; 2; 1] /\
  s_halt (run_incarnations repaired_cfg ex_hist2) = true /\
  recover_all (crash (s_store (run_incarnations repaired_cfg ex_hist2))) = [1; 2; 3; 4; 5; 6] /\
  recover_all (crash_keep k_all (s_store (run_incarnations repaired_cfg ex_hist2))) = [1; 2; 3; 4; 5; 6; 7; 8] /\
  acked_ok (run_incarnations repaired_cfg ex_hist3) = [9; 6; 5; 4; 3; 2; 1] /\
  recover_all (crash (s_store (run_incarnations repaired_cfg ex_hist3))) = [1; 2; 3; 4; 5; 6; 7; 8; 9] /\
  map fst (s_store (run_incarnations repaired_cfg ex_hist3)) = [1; 2; 3; 4].
Proof. exact example_restarts. Qed.
Print Assumptions C09_nonvacuous_restarts.

(* Truncation with out-of-order stamps inside a closed file. *)
Example C09_nonvacuous_truncation :
  acked_ok (run repaired_cfg (tr_sched 3) (repeat OOk 20)) = [wid 9 4; wid 3 3; wid 1 2; wid 5 1] /\
  s_released (run repaired_cfg (tr_sched 3) (repeat OOk 20)) = [] /\
  recover_all (crash (s_store (run repaired_cfg (tr_sched 3) (repeat OOk 20)))) = [wid 5 1; wid 1 2; wid 3 3; wid 9 4] /\
  s_released (run repaired_cfg (tr_sched 5) (repeat OOk 20)) = [wid 5 1; wid 1 2; wid 3 3] /\
  recover_all (crash (s_store (run repaired_cfg (tr_sched 5) (repeat OOk 20)))) = [wid 9 4] /\
  s_halt (run repaired_cfg (tr_sched 5) (repeat OOk 20)) = false.
Proof. exact example_truncation. Qed.
Print Assumptions C09_nonvacuous_truncation.

(* Equal stamps: four different writes stamped 7 (one per file, so a rotation lies between
   every adjacent pair) and one stamped 6 - all acked, all recovered, in order. *)
Example C09_nonvacuous_equal_stamps :
  acked_ok (run (Config Repaired 101 8) eq_sched (repeat OOk 40)) = [wid 6 5; wid 7 4; wid 7 3; wid 7 2; wid 7 1] /\
  recover_all (crash (s_store (run (Config Repaired 101 8) eq_sched (repeat OOk 40)))) = [wid 7 1; wid 7 2; wid 7 3; wid 7 4; wid 6 5] /\
  map fst (s_store (run (Config Repaired 101 8) eq_sched (repeat OOk 40))) = [1; 2; 3; 4; 5].
Proof. exact example_equal_stamps. Qed.
Print Assumptions C09_nonvacuous_equal_stamps.

(* C02 — concurrent clients on one node see a linearizable per-key history.
   Statements only; proofs are in Proofs/ActorProofs.v.

   Scope (partial claim): the theorems are about Model/Actor.v, the message-passing
   protocol of the shard actors: FIFO mailboxes, one machine per shard, one reply cell per
   request (oneshot or pooled slot), clients with one request in flight; every schedule of
   clients and shard tasks is a list of labels accepted by [run].  The tokio scheduler, the
   lock/waker protocol inside ResponseSlot, future cancellation and the unchecked UTF-8
   conversion of keys are outside this model and are only explored by concurrent runs of the
   real code (harness/src/bin/c02.rs), whose histories are judged by [lin_check] below. *)
From Coq Require Import List Arith NArith ZArith Bool Permutation Sorted.
From RV Require Import Lib.Hex Model.Actor Proofs.ActorProofs.
Import ListNotations.

(* For every machine, routing function, pool size and schedule: (1) the Process order is a
   legal sequential run of the node (the product of the shard machines) that ends in the
   shards' current states; (2) every reply a client got is the reply computed when that
   client's own request was processed, at an instant strictly between its invocation and its
   response; (3) hence real-time order is respected; instants are positions in the trace. *)
Theorem actor_linearizable :
  forall (S Op Reply : Type) (step : S -> Op -> S * Reply) (route : Op -> nat) (cap : nat)
         (g0 : nat -> S) (prewarm : nat) (ls : list (label Op)) s evs,
  run step route cap (sys_init g0 prewarm) ls = Some (s, evs) ->
  (legal (nat -> S) Op Reply (gstep step route) g0 (procs evs) /\
   forall sh, final (nat -> S) Op Reply (gstep step route) g0 (procs evs) sh = mach s sh) /\
  (forall rq r t, In (ERet rq r t) evs ->
     exists k tp, In (EInv rq k) evs /\ In (EProc (route (rq_op rq)) rq r tp) evs /\
                  rq_tinv rq < tp /\ tp < t) /\
  (forall a ra ta b shb rb tb, In (ERet a ra ta) evs -> ta < rq_tinv b ->
     In (EProc shb b rb tb) evs ->
     exists tpa, In (EProc (route (rq_op a)) a ra tpa) evs /\ tpa < tb) /\
  map ev_time evs = seq 0 (length evs).
Proof. exact actor_linearizable_lemma. Qed.
Print Assumptions actor_linearizable.

(* Reply cells never cross requests: two in-flight requests never share a cell, an in-flight
   cell is not in the pool, the pool holds no cell twice, and the reply a client reads from
   its cell is the reply computed for its own request (whichever kind of cell it is). *)
Theorem slot_exclusive :
  forall (S Op Reply : Type) (step : S -> Op -> S * Reply) (route : Op -> nat) (cap : nat)
         (g0 : nat -> S) (prewarm : nat) (ls : list (label Op)) s evs,
  run step route cap (sys_init g0 prewarm) ls = Some (s, evs) ->
  (forall c1 c2 rq1 rq2 k1 k2, cli s c1 = Waiting rq1 k1 -> cli s c2 = Waiting rq2 k2 ->
     rq_slot rq1 = rq_slot rq2 -> c1 = c2) /\
  (forall c rq k, cli s c = Waiting rq k -> ~ In (rq_slot rq) (free s)) /\
  NoDup (free s) /\
  (forall c s' rq r t, sys_step step route cap s (LReturn c) = Some (s', ERet rq r t) ->
     rq_client rq = c /\
     exists k tp, In (EInv rq k) evs /\ In (EProc (route (rq_op rq)) rq r tp) evs) /\
  (forall rq r t, In (ERet rq r t) evs ->
     exists k tp, In (EInv rq k) evs /\ In (EProc (route (rq_op rq)) rq r tp) evs).
Proof. exact slot_exclusive_lemma. Qed.
Print Assumptions slot_exclusive.

(* The linearization-point form implies the classical definition, for every machine and
   every history with completed and pending operations. *)
Theorem points_imply_linearizable :
  forall (S Op Reply : Type) (step : S -> Op -> S * Reply) init comp pend,
  lin_points S Op Reply step init comp pend -> linearizable S Op Reply step init comp pend.
Proof. exact points_imply_linearizable_gen. Qed.
Print Assumptions points_imply_linearizable.

(* So the history of every trace is linearizable in the classical sense w.r.t. the node. *)
Theorem actor_history_linearizable :
  forall (S Op Reply : Type) (step : S -> Op -> S * Reply) (route : Op -> nat) (cap : nat)
         (g0 : nat -> S) (prewarm : nat) (ls : list (label Op)) s evs,
  run step route cap (sys_init g0 prewarm) ls = Some (s, evs) ->
  linearizable (nat -> S) Op Reply (gstep step route) g0 (completed evs) (pending evs).
Proof. exact actor_classical_lemma. Qed.
Print Assumptions actor_history_linearizable.

(* Per key: if operations are key-local (an operation touching key k acts on k's part of the
   state as the per-key machine does and does not disturb other keys — C01's locality) and
   routing is single-homed (every path sends every operation touching k to k's one shard —
   C03's routing theorem), then the projection of the history of any trace to any key is
   linearizable w.r.t. that key's machine, whichever kind of message carried each command. *)
Theorem per_key :
  forall (S Op Reply : Type) (step : S -> Op -> S * Reply) (route : Op -> nat)
         (K V KReply : Type) (touches : Op -> K -> bool) (view : S -> K -> V)
         (kstep : K -> V -> Op -> V * KReply) (rproj : K -> Reply -> KReply) (home : K -> nat),
  (forall s op k, touches op k = true ->
     kstep k (view s k) op = (view (fst (step s op)) k, rproj k (snd (step s op)))) ->
  (forall s op k, touches op k = false -> view (fst (step s op)) k = view s k) ->
  (forall op k, touches op k = true -> route op = home k) ->
  forall cap (g0 : nat -> S) prewarm (ls : list (label Op)) s evs k,
  run step route cap (sys_init g0 prewarm) ls = Some (s, evs) ->
  linearizable V Op KReply (kstep k) (view (g0 (home k)) k)
    (proj_hist Op Reply KReply K touches rproj k (completed evs))
    (proj_pend Op K touches k (pending evs)).
Proof. exact per_key_lemma. Qed.
Print Assumptions per_key.

(* A batch (FastBatchGet/FastBatchSet, the commands of a Lua script) of key-local primitives
   is one operation that satisfies the two locality hypotheses of [per_key]: its effect on
   key k is the atomic run of its primitives on k. *)
Theorem batch_key_local :
  forall (S POp PReply K V : Type) (pstep : S -> POp -> S * PReply) (pkey : POp -> K)
         (keqb : K -> K -> bool),
  (forall a b, keqb a b = true <-> a = b) ->
  forall (view : S -> K -> V) (pkstep : V -> POp -> V * PReply),
  (forall s p, pkstep (view s (pkey p)) p = (view (fst (pstep s p)) (pkey p), snd (pstep s p))) ->
  (forall s p k, k <> pkey p -> view (fst (pstep s p)) k = view s k) ->
  (forall s b k, kbatch_touches POp K pkey keqb b k = true ->
     kbatch_kstep POp PReply K V pkey keqb pkstep k (view s k) b =
     (view (fst (kbatch_step S POp PReply K pstep pkey s b)) k,
      kbatch_rproj PReply K keqb k (snd (kbatch_step S POp PReply K pstep pkey s b)))) /\
  (forall b s k, kbatch_touches POp K pkey keqb b k = false ->
     view (fst (kbatch_step S POp PReply K pstep pkey s b)) k = view s k).
Proof.
  intros S POp PReply K V pstep pkey keqb He view pkstep Hl Hf.
  split; [exact (kbatch_local S POp PReply K V pstep pkey keqb He view pkstep Hl Hf)
        |eapply kbatch_frame; eassumption].
Qed.
Print Assumptions batch_key_local.

(* The executable checker of the correspondence is sound and complete for complete
   per-key histories over the per-key machine [tkstep] (value + deadline + clock; strings, lists, sets, hashes: GET, SET [NX|XX] [GET], SETNX,
   GETSET, GETDEL, INCRBY, APPEND, SETRANGE, DEL, EXISTS, LPUSH/RPUSH/LPOP/RPOP, SADD/SREM, HSET/HDEL,
   SET PX/EX/KEEPTTL, EXPIRE/PEXPIRE, PERSIST, TTL/PTTL, GETEX, clock advances; atomic lists of these): it answers true exactly when some permutation of the history that
   respects real-time order is a legal sequential run with the observed replies. *)
Theorem lin_check_sound : forall init h,
  lin_check init h = true ->
  linearizable_complete tst (list cmd) (list prep) tkstep init h.
Proof. exact lin_check_sound_lemma. Qed.
Print Assumptions lin_check_sound.

Theorem lin_check_complete : forall init h,
  linearizable_complete tst (list cmd) (list prep) tkstep init h ->
  lin_check init h = true.
Proof. exact lin_check_complete_lemma. Qed.
Print Assumptions lin_check_complete.

(* with distinct operation ids this is the classical definition (no pending operations) *)
Theorem lin_check_classical : forall init h,
  NoDup (map o_id h) -> lin_check init h = true ->
  linearizable tst (list cmd) (list prep) tkstep init h [].
Proof.
  intros init h Hn Hc.
  exact (complete_linearizable _ _ _ tkstep init h Hn (lin_check_sound_lemma init h Hc)).
Qed.
Print Assumptions lin_check_classical.

(* the independent brute-force decision (all permutations, then test) is exact as well, so
   the two procedures always agree; a [false] answer needs no further confirmation *)
Theorem lin_brute_exact : forall init h,
  lin_brute init h = true <->
  linearizable_complete tst (list cmd) (list prep) tkstep init h.
Proof. exact lin_brute_exact_lemma. Qed.
Print Assumptions lin_brute_exact.

Theorem lin_check_agrees_with_brute : forall init h, lin_check init h = lin_brute init h.
Proof. exact lin_check_brute_agree. Qed.
Print Assumptions lin_check_agrees_with_brute.

(* the order in which a history is listed does not matter (the harness lists each window in
   the order of the linearization its own search found, which only shortens Coq's search) *)
Theorem lin_check_listing_irrelevant : forall init h h',
  Permutation h h' -> lin_check init h = lin_check init h'.
Proof. exact lin_check_perm_lemma. Qed.
Print Assumptions lin_check_listing_irrelevant.

(* ---- non-vacuity ---- *)

(* the keyed store (keys are numbers, an operation = a key and an atomic list of primitives)
   satisfies the three hypotheses of [per_key] for any number of shards *)
Example C02_store_satisfies_hypotheses : forall n,
  (forall (s : nat -> kst) op k, store_touches op k = true ->
     store_kstep k (store_view s k) op = (store_view (fst (store_step s op)) k, snd (store_step s op))) /\
  (forall (s : nat -> kst) op k, store_touches op k = false ->
     store_view (fst (store_step s op)) k = store_view s k) /\
  (forall op k, store_touches op k = true -> store_route n op = Nat.modulo k n).
Proof.
  intro n. exact (conj store_key_local (conj store_key_frame (store_single_homed n))).
Qed.
Print Assumptions C02_store_satisfies_hypotheses.

(* a concrete schedule: two shards, pool of capacity 1 with one prewarmed slot, three clients,
   pooled and generic requests in flight together; slot 0 is released and re-acquired while
   client 1 is still waiting, the last release finds the pool full; four operations complete,
   overlapping in time *)
Definition ex_labels : list (label (nat * list prim)) :=
  [ LInvoke 0 KPooled (1, [PSet [97%N]]); LInvoke 1 KPooled (1, [PGet]);
    LInvoke 2 KGeneric (2, [PIncr]); LProcess 1; LProcess 0; LReturn 0;
    LInvoke 0 KPooled (2, [PGet]); LProcess 1; LProcess 0; LReturn 1; LReturn 2; LReturn 0 ].

Example C02_nonvacuous :
  match run store_step (store_route 2) 1 (sys_init (fun _ _ => KNone) 1) ex_labels with
  | Some (s, evs) =>
      free s = [1] /\ next_slot s = 3 /\
      map (fun e => match e with EInv rq _ => Some (rq_slot rq) | _ => None end) evs =
        [Some 0; Some 1; Some 2; None; None; None; Some 0; None; None; None; None; None] /\
      map (fun o => (o_id o, o_inv o, o_ret o, o_op o, o_rep o)) (completed evs) =
        [(0, 0, Some 5, (1, [PSet [97%N]]), [ROk]);
         (1, 1, Some 9, (1, [PGet]), [RVal (Some [97%N])]);
         (2, 2, Some 10, (2, [PIncr]), [RInt 1%Z]);
         (3, 6, Some 11, (2, [PGet]), [RVal (Some [49%N])])]
  | None => False
  end.
Proof. vm_compute. repeat split; reflexivity. Qed.
Print Assumptions C02_nonvacuous.

(* the checker accepts a linearizable history with overlap, rejects a stale read, and knows that
   a plain SET clears the deadline: after SET v PX 150, SET v, clock +200 the key is still there *)
Example C02_checker_discriminates :
  lin_check (TSt KNone None 0) [OpRec 0 0 (Some 3) [CP (PSet [97%N])] [ROk];
                  OpRec 1 1 (Some 4) [CP PGet] [RVal None];
                  OpRec 2 5 (Some 6) [CP PGet] [RVal (Some [97%N])]] = true /\
  lin_check (TSt KNone None 0) [OpRec 0 0 (Some 1) [CP (PSet [97%N])] [ROk];
                  OpRec 1 2 (Some 3) [CP PGet] [RVal None]] = false /\
  lin_check (TSt KNone None 0) [OpRec 0 0 (Some 1) [CSetPx [97%N] 150] [ROk];
                  OpRec 1 2 (Some 3) [CP (PSet [97%N])] [ROk];
                  OpRec 2 4 (Some 5) [CAdv 200] [ROk];
                  OpRec 3 6 (Some 7) [CP PGet] [RVal None]] = false /\
  lin_check (TSt KNone None 0) [OpRec 0 0 (Some 1) [CSetPx [97%N] 150] [ROk];
                  OpRec 1 2 (Some 3) [CAdv 200] [ROk];
                  OpRec 2 4 (Some 5) [CP PGet] [RVal None]] = true.
Proof. vm_compute. repeat split; reflexivity. Qed.
Print Assumptions C02_checker_discriminates.

(* C01 - commands behave as Redis.  Statements only; proofs are in Proofs/RedisProofs.v.
   The theorems are laws of the reference model (Model/Redis.v); that the implementation
   equals the reference is decided by the correspondence check. *)
From stdpp Require Import gmap.
From Coq Require Import ZArith NArith.
From RV Require Import Lib.Hex Model.Redis Proofs.RedisProofs.

(* A key with deadline d is visible at every instant strictly before d and at no instant at
   or after d; a key without deadline stays; nothing appears when only the clock moves. *)
Theorem C01_visible_iff_before_deadline : forall (s : gmap (list N) (value * option N)) k v,
  (forall d t, s !! k = Some (v, Some d) ->
     ((t < d)%N -> advance s t !! k = Some (v, Some d)) /\ ((d <= t)%N -> advance s t !! k = None)) /\
  (forall t, s !! k = Some (v, None) -> advance s t !! k = Some (v, None)) /\
  (forall t, s !! k = None -> advance s t !! k = None).
Proof. exact visible_iff_before_deadline_lemma. Qed.
Print Assumptions C01_visible_iff_before_deadline.

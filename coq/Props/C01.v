(* C01 - commands behave as Redis: every reply and the keyspace match the Redis model.
   Statements only; proofs are in Proofs/RedisProofs.v.
   The theorems are laws of the reference semantics Model/Redis.v (dialect Redis) and of the
   implementation as built (dialect AsBuilt = Redis with the two pinned deviations); that the
   Rust implementation equals dialect AsBuilt is decided by the correspondence check. *)
From stdpp Require Import gmap.
From Coq Require Import ZArith NArith.
From RV Require Import Lib.Hex Model.Redis Proofs.RedisProofs Proofs.RedisNumProofs.
Local Open Scope Z_scope.

(* Every reachable state (any sequence of clock settings and commands, from the empty
   keyspace): no key holds an empty collection and every stored deadline lies strictly after
   the last clock reading. *)
Theorem C01_reach_inv : forall dl (ops : list op) k v d,
  (run dl ops).1 !! k = Some (v, d) ->
  value_nonempty v = true /\ (forall t, d = Some t -> ((run dl ops).2 < t)%N).
Proof.
  intros dl ops k v d H. destruct (reach_inv_lemma dl ops k _ H) as [H1 H2].
  split; [exact H1|]. intros t ->. exact H2.
Qed.
Print Assumptions C01_reach_inv.

(* A key with deadline d is visible at every instant strictly before d and at no instant at
   or after d; a key without deadline stays; nothing appears when only the clock moves. *)
Theorem C01_visible_iff_before_deadline : forall (s : gmap (list N) (value * option N)) k v,
  (forall d t, s !! k = Some (v, Some d) ->
     ((t < d)%N -> advance s t !! k = Some (v, Some d)) /\ ((d <= t)%N -> advance s t !! k = None)) /\
  (forall t, s !! k = Some (v, None) -> advance s t !! k = Some (v, None)) /\
  (forall t, s !! k = None -> advance s t !! k = None).
Proof. exact visible_iff_before_deadline_lemma. Qed.
Print Assumptions C01_visible_iff_before_deadline.

(* A collection that becomes empty stops existing: after any command run in a state satisfying
   the invariant (hence in any reachable state) no key holds an empty list/set/hash/zset. *)
Theorem C01_empty_collection_vanishes : forall dl s now c k v d,
  Inv (s, now) -> (exec dl s now c).1 !! k = Some (v, d) ->
  match v with
  | VStr _ => True | VList l => l <> [] | VSet x => x <> ∅ | VHash h => h <> ∅ | VZSet z => z <> ∅
  end.
Proof. exact empty_collection_vanishes_lemma. Qed.
Print Assumptions C01_empty_collection_vanishes.

(* ... and a key that is absent is reported absent: TYPE none, EXISTS 0, TTL/PTTL -2, GET nil. *)
Theorem C01_absent_key_observations : forall dl (s : gmap (list N) (value * option N)) now k,
  s !! k = None ->
  (exec dl s now (TypeOf k)).2 = RSimple type_none /\ (exec dl s now (ExistsC [k])).2 = RInt 0 /\
  (exec dl s now (Ttl k)).2 = RInt (-2) /\ (exec dl s now (Pttl k)).2 = RInt (-2) /\
  (exec dl s now (Get k)).2 = RBulk None.
Proof. exact absent_observations_lemma. Qed.
Print Assumptions C01_absent_key_observations.

(* ... popping the last element / removing the last member / field removes the key. *)
Theorem C01_last_element_gone : forall dl (s : gmap (list N) (value * option N)) now k x d,
  (s !! k = Some (VList [x], d) ->
     (exec dl s now (LPop k)).1 !! k = None /\ (exec dl s now (RPop k)).1 !! k = None) /\
  (s !! k = Some (VSet {[x]}, d) -> (exec dl s now (SRem k [x])).1 !! k = None) /\
  (forall y, s !! k = Some (VHash {[x := y]}, d) -> (exec dl s now (HDel k [x])).1 !! k = None) /\
  (forall z, s !! k = Some (VZSet {[x := z]}, d) -> (exec dl s now (ZRem k [x])).1 !! k = None).
Proof. exact last_element_gone_lemma. Qed.
Print Assumptions C01_last_element_gone.

(* Key locality (frame lemma, reused by C02/C03): a command with key list ks - every command
   except KEYS, DBSIZE, FLUSHDB, FLUSHALL - computes its reply and what it leaves at ks from
   what the state holds at ks only, and touches no other key. *)
Theorem C01_key_local : forall dl c ks, cmd_keys c = Some ks -> forall s1 s2 now,
  agree_on ks s1 s2 ->
  (exec dl s1 now c).2 = (exec dl s2 now c).2 /\
  agree_on ks (exec dl s1 now c).1 (exec dl s2 now c).1 /\
  forall k, k ∉ ks -> (exec dl s1 now c).1 !! k = s1 !! k.
Proof. exact key_local_lemma. Qed.
Print Assumptions C01_key_local.

(* ---- laws that pin the oracle itself *)

(* Index normalisation of LRANGE/LTRIM/ZRANGE for every pair of Z indices: the result is
   exactly the elements at positions S..E where S = start (from the end if negative, clamped at
   0) and E = stop (from the end if negative, clamped at len-1). *)
Theorem C01_lrange_index_normalisation : forall (l : list (list N)) (a b : Z) (i : nat),
  let len := zlen l in
  let S := if a <? 0 then Z.max (len + a) 0 else a in
  let E := Z.min (if b <? 0 then len + b else b) (len - 1) in
  lrange l a b !! i = if S + Z.of_nat i <=? E then l !! Z.to_nat (S + Z.of_nat i) else None.
Proof. exact (@lrange_lookup_lemma (list N)). Qed.
Print Assumptions C01_lrange_index_normalisation.

Theorem C01_lindex_ltrim_getrange_agree_with_lrange : forall (l : list (list N)) d (i a b : Z),
  lindex l i = head (lrange l i i) /\
  lrange l 0 (-1) = l /\
  (c_ltrim a b (Some (VList l, d))).1 = mk (VList (lrange l a b)) d /\
  (forall dl (s : list N), 0 <= a -> 0 <= b -> getrange dl s a b = lrange s a b).
Proof.
  intros. split; [apply lindex_lrange_lemma|]. split; [apply lrange_all_lemma|].
  split; [reflexivity|]. intros. by apply getrange_nonneg_lemma.
Qed.
Print Assumptions C01_lindex_ltrim_getrange_agree_with_lrange.

(* INCRBY is exact, and is an error exactly when the stored string is not a canonical integer
   (string2ll) or the sum leaves the i64 range; then nothing is written. *)
Theorem C01_incrby_exact : forall (b : list N) d z,
  c_incrby z (Some (VStr b, d)) =
    match parse_i64 b with
    | None => (Some (VStr b, d), RErr ENotInteger)
    | Some cur =>
        if (I64MIN <=? cur + z) && (cur + z <=? I64MAX)
        then (Some (VStr (fmt_Z (cur + z)), d), RInt (cur + z))
        else (Some (VStr b, d), RErr EOverflow)
    end /\
  (is_error (c_incrby z (Some (VStr b, d))).2 = true <->
   match parse_i64 b with None => True | Some cur => cur + z < I64MIN \/ I64MAX < cur + z end) /\
  c_incrby z None = (Some (VStr (fmt_Z z), None), RInt z).
Proof.
  intros. split; [apply incrby_exact_lemma|]. split; [apply incrby_error_iff_lemma | reflexivity].
Qed.
Print Assumptions C01_incrby_exact.

(* What INCRBY/HINCRBY store can be read back: the decimal text of any i64 is a canonical
   integer for string2ll, so a counter can be incremented again. *)
Theorem C01_incr_result_reparses : forall z, in_i64 z = true -> parse_i64 (fmt_Z z) = Some z.
Proof. exact parse_fmt_roundtrip_lemma. Qed.
Print Assumptions C01_incr_result_reparses.

(* The SET option table. *)
Theorem C01_set_option_table : forall now v (oe : option (value * option N)),
  c_set now v XNone false false false oe = (Some (VStr v, None), ROk) /\
  c_set now v XKeepTtl false false false oe = (Some (VStr v, entry_deadline oe), ROk) /\
  (is_some oe = true -> c_set now v XNone true false false oe = (oe, RNil)) /\
  (is_some oe = false -> c_set now v XNone false true false oe = (oe, RNil)) /\
  (holds_nonstr oe = false -> c_set now v XNone false false true oe = (Some (VStr v, None), old_str oe)) /\
  (holds_nonstr oe = true -> c_set now v XNone false false true oe = (oe, RErr EWrongType)) /\
  (forall ms, 0 < ms -> ms + Z.of_N now <= I64MAX ->
     c_set now v (XPx ms) false false false oe = (Some (VStr v, Some (Z.to_N (ms + Z.of_N now))), ROk)) /\
  (forall ms nx xx get, ms <= 0 -> c_set now v (XPx ms) nx xx get oe = (oe, RErr EInvalidExpire)) /\
  (forall t, Z.of_N now < t -> c_set now v (XPxAt t) false false false oe = (Some (VStr v, Some (Z.to_N t)), ROk)) /\
  (forall t, 0 < t -> t <= Z.of_N now -> c_set now v (XPxAt t) false false false oe = (None, ROk)).
Proof. exact set_option_table_lemma. Qed.
Print Assumptions C01_set_option_table.

(* TTL / EXPIRETIME round to the nearest second, PTTL / PEXPIRETIME are exact; the EXPIRE family
   evaluates NX/XX/GT/LT first and then deletes the key if the deadline is not in the future. *)
Theorem C01_ttl_and_expire_tables : forall now w v (d : N) (od : option N) nx xx gt lt,
  ((now < d)%N ->
    (c_ttl now false false (Some (v, Some d))).2 = RInt ((Z.of_N d - Z.of_N now + 500) / 1000) /\
    (c_ttl now true false (Some (v, Some d))).2 = RInt (Z.of_N d - Z.of_N now) /\
    (c_ttl now false true (Some (v, Some d))).2 = RInt ((Z.of_N d + 500) / 1000) /\
    (c_ttl now true true (Some (v, Some d))).2 = RInt (Z.of_N d)) /\
  c_expire_at now w nx xx gt lt (Some (v, od)) =
    if (nx && is_some od) || (xx && negb (is_some od))
       || (gt && match od with Some c => w <=? Z.of_N c | None => true end)
       || (lt && match od with Some c => w >=? Z.of_N c | None => false end)
    then (Some (v, od), RInt 0)
    else (if w <=? Z.of_N now then None else Some (v, Some (Z.to_N w)), RInt 1).
Proof. intros. split; [apply ttl_rounding_lemma | apply expire_table_lemma]. Qed.
Print Assumptions C01_ttl_and_expire_tables.

(* ---- the implementation as built vs the reference *)

(* Outside the class known_dev (GETSET of a string with a TTL; GETRANGE of a non-empty string
   with two negative indices in the wrong order; the SET NX+XX and EXPIRE/PEXPIRE flag sets that
   only the parsers refuse and no client can send) the two dialects are the same function. *)
Theorem C01_as_built_is_redis_outside_known_classes : forall s now c,
  known_dev s c = false -> exec AsBuilt s now c = exec Redis s now c.
Proof. exact dialect_eq_outside_class_lemma. Qed.
Print Assumptions C01_as_built_is_redis_outside_known_classes.

(* Known finding C01-getset-keeps-ttl: SET a x PX 1000; GETSET a y leaves the TTL in place. *)
Theorem C01_getset_keeps_ttl_refuted :
  known_dev dev_getset_state (GetSet [97%N] [121%N]) = true /\
  (exec Redis dev_getset_state 0 (GetSet [97%N] [121%N])).1 !! [97%N] = Some (VStr [121%N], None) /\
  (exec AsBuilt dev_getset_state 0 (GetSet [97%N] [121%N])).1 !! [97%N] = Some (VStr [121%N], Some 1000%N).
Proof. exact getset_keeps_ttl_refuted_lemma. Qed.
Print Assumptions C01_getset_keeps_ttl_refuted.

(* Known finding C01-getrange-negative-order: SET a 1; GETRANGE a -2 -5 answers "1", Redis "". *)
Theorem C01_getrange_negative_order_refuted :
  known_dev dev_getrange_state (GetRange [97%N] (-2) (-5)) = true /\
  (exec Redis dev_getrange_state 0 (GetRange [97%N] (-2) (-5))).2 = RBulk (Some []) /\
  (exec AsBuilt dev_getrange_state 0 (GetRange [97%N] (-2) (-5))).2 = RBulk (Some [49%N]).
Proof. exact getrange_negative_order_refuted_lemma. Qed.
Print Assumptions C01_getrange_negative_order_refuted.

(* The reference is binary safe: members and fields are compared as byte strings.  The
   implementation stores them as lossy-UTF-8 Strings (known finding C01-lossy-members: two
   different non-UTF-8 members collapse); the harness shows the witness on the real executor. *)
Theorem C01_members_are_binary_safe : forall dl now (k m m' : list N),
  (exec dl (exec dl ∅ now (SAdd k [m])).1 now (SIsMember k m')).2 = RInt (if bool_decide (m' = m) then 1 else 0) /\
  (exec dl (exec dl ∅ now (HSet k [(m, [118%N])])).1 now (HExists k m')).2 = RInt (if bool_decide (m' = m) then 1 else 0) /\
  (exec dl (exec dl ∅ now (ZAdd k [(1, m)] false false false false false)).1 now (ZScore k m')).2 =
     RBulk (if bool_decide (m' = m) then Some [49%N] else None).
Proof. exact members_binary_safe_lemma. Qed.
Print Assumptions C01_members_are_binary_safe.

(* A concrete run: SET k 10 PX 100; INCR k; RPUSH l a b; clock 99; LPOP l; LPOP l; clock 100. *)
Example C01_nonvacuous :
  (run Redis (firstn 4 ex_ops)).1 !! [107%N] = Some (VStr [49%N; 49%N], Some 100%N) /\
  (run Redis (firstn 4 ex_ops)).1 !! [108%N] = Some (VList [[97%N]; [98%N]], None) /\
  (run Redis (firstn 6 ex_ops)).1 !! [108%N] = None /\
  map_to_list (run Redis ex_ops).1 = [] /\ (run Redis ex_ops).2 = 100%N.
Proof. exact ex_run_lemma. Qed.
Print Assumptions C01_nonvacuous.
